import RactorModel.Lemmas.HandshakeFail
import RactorModel.Lemmas.HandshakePre
import RactorModel.Model.HandshakeLinger

/-! Ready events, lower bound (C18, clause "node events report exactly one ready session per peer").

`one_live_ready_session_per_peer` bounds the live ready sessions from ABOVE. Here: the guard of the
ready step as a predicate (`readyEnabledA/B`), "both `NodeServer`s got scheduled" as a predicate on
states (`readyQuiescent`: every ready step that is enabled now has been taken), and the state
lemma: at rest with a link up, a fair state has reported both ends of that link. -/

namespace Election

/-- the guard of `rStep … (.readyA a)`: the session is authenticated, open, and elected among the
authenticated open sessions of the peer (`is_elected(a)`) -/
def readyEnabledA (o : Ordering) (w : List Link) (a : Nat) : Bool :=
  w.any (fun l => l.c.idA == a && l.authA && l.openA) && (electA o (activeA w)).contains a
def readyEnabledB (o : Ordering) (w : List Link) (b : Nat) : Bool :=
  w.any (fun l => l.c.idB == b && l.authB && l.openB) && (electB o (activeB w)).contains b

/-- it IS the guard of the step -/
theorem rStep_readyA (o : Ordering) (s : RState) (a : Nat) :
    rStep o s (.readyA a) = if readyEnabledA o s.w a then { s with logA := s.logA ++ [a] } else s := rfl
theorem rStep_readyB (o : Ordering) (s : RState) (b : Nat) :
    rStep o s (.readyB b) = if readyEnabledB o s.w b then { s with logB := s.logB ++ [b] } else s := rfl

/-- both `NodeServer`s have been scheduled: every ready step that is enabled NOW has been taken
(its session id is in that node's log); no `readyA x` / `readyB x` could report a session that was
not reported before. (A ready step needs a link with that id, so ranging over the links is enough:
`readyQuiescent_iff`.) -/
def readyQuiescent (o : Ordering) (s : RState) : Bool :=
  s.w.all (fun l => (!readyEnabledA o s.w l.c.idA || s.logA.contains l.c.idA) &&
                    (!readyEnabledB o s.w l.c.idB || s.logB.contains l.c.idB))

theorem readyQuiescent_iff (o : Ordering) (s : RState) :
    readyQuiescent o s = true ↔
      (∀ a, readyEnabledA o s.w a = true → a ∈ s.logA) ∧ (∀ b, readyEnabledB o s.w b = true → b ∈ s.logB) := by
  unfold readyQuiescent
  rw [List.all_eq_true]
  constructor
  · intro h
    refine ⟨fun a ha => ?_, fun b hb => ?_⟩
    · have ha' := ha
      unfold readyEnabledA at ha'
      simp only [Bool.and_eq_true, List.any_eq_true, beq_iff_eq] at ha'
      obtain ⟨⟨l, hl, ⟨hid, _⟩, _⟩, _⟩ := ha'
      have := h l hl
      rw [hid, ha, Bool.and_eq_true] at this
      simpa using this.1
    · have hb' := hb
      unfold readyEnabledB at hb'
      simp only [Bool.and_eq_true, List.any_eq_true, beq_iff_eq] at hb'
      obtain ⟨⟨l, hl, ⟨hid, _⟩, _⟩, _⟩ := hb'
      have := h l hl
      rw [hid, hb, Bool.and_eq_true] at this
      simpa using this.2
  · intro ⟨hA, hB⟩ l _
    simp only [Bool.and_eq_true, Bool.or_eq_true, Bool.not_eq_true', List.contains_eq_mem, decide_eq_true_eq]
    constructor
    · cases h : readyEnabledA o s.w l.c.idA
      · exact Or.inl rfl
      · exact Or.inr (hA _ h)
    · cases h : readyEnabledB o s.w l.c.idB
      · exact Or.inl rfl
      · exact Or.inr (hB _ h)

/-- at rest, "open" and "authenticated and open" are the same on both nodes, and the two nodes
hold the same connections -/
theorem quiescent_links {w : List Link} (hq : hsQuiescent w = true) :
    ∀ l ∈ w, l.openA = l.openB ∧ (l.openA = true → l.authA = true ∧ l.authB = true) := by
  unfold hsQuiescent at hq
  rw [List.all_eq_true] at hq
  intro l hl
  have := hq l hl
  simp only [Bool.and_eq_true, beq_iff_eq, Bool.or_eq_true, Bool.not_eq_true'] at this
  refine ⟨this.1, fun ho => ?_⟩
  rcases this.2 with h | h
  · rw [ho] at h; exact absurd h (by simp)
  · exact h

theorem quiescent_openA_eq_activeA {w : List Link} (hq : hsQuiescent w = true) : openOnA w = activeA w := by
  unfold openOnA activeA; congr 1; apply List.filter_congr; intro l hl
  cases ho : l.openA
  · simp
  · simp [((quiescent_links hq l hl).2 ho).1]

theorem quiescent_openB_eq_activeB {w : List Link} (hq : hsQuiescent w = true) : openOnB w = activeB w := by
  unfold openOnB activeB; congr 1; apply List.filter_congr; intro l hl
  cases ho : l.openB
  · simp
  · have : l.openA = true := by rw [(quiescent_links hq l hl).1]; exact ho
    simp [((quiescent_links hq l hl).2 this).2]

theorem electA_single (o : Ordering) (c : Conn) : electA o [c] = [c.idA] := by
  simp [electA, elect, viewA]
theorem electB_single (o : Ordering) (c : Conn) : electB o [c] = [c.idB] := by
  simp [electB, elect, viewB]

/-- **state lemma of the lower bound**: at rest, when the two nodes hold the link `c`, its ready
step is enabled on both nodes; so a state in which every enabled ready step has been taken has
reported both ends of `c`, and they are live. -/
theorem ready_reported_at_rest (o : Ordering) (s : RState) (c : Conn)
    (hq : hsQuiescent s.w = true) (hr : readyQuiescent o s = true)
    (hA : openOnA s.w = [c]) (hB : openOnB s.w = [c]) :
    c.idA ∈ liveReadyA s ∧ c.idB ∈ liveReadyB s := by
  obtain ⟨rA, rB⟩ := (readyQuiescent_iff o s).mp hr
  have hcA : c ∈ openOnA s.w := by rw [hA]; simp
  have hcB : c ∈ openOnB s.w := by rw [hB]; simp
  obtain ⟨l, hl, rfl⟩ := List.mem_map.mp hcA
  obtain ⟨hlw, hlo⟩ := List.mem_filter.mp hl
  obtain ⟨l', hl', hc'⟩ := List.mem_map.mp hcB
  obtain ⟨hlw', hlo'⟩ := List.mem_filter.mp hl'
  have ql := quiescent_links hq l hlw
  have ql' := quiescent_links hq l' hlw'
  have hlo'A : l'.openA = true := by rw [ql'.1]; exact hlo'
  constructor
  · have en : readyEnabledA o s.w l.c.idA = true := by
      unfold readyEnabledA
      rw [← quiescent_openA_eq_activeA hq, hA, electA_single]
      simp only [Bool.and_eq_true, List.any_eq_true, beq_iff_eq]
      exact ⟨⟨l, hlw, ⟨rfl, (ql.2 hlo).1⟩, hlo⟩, by simp⟩
    simp only [liveReadyA, List.mem_filter, List.any_eq_true, Bool.and_eq_true, beq_iff_eq]
    exact ⟨rA _ en, l, hlw, rfl, hlo⟩
  · have en : readyEnabledB o s.w l'.c.idB = true := by
      unfold readyEnabledB
      rw [← quiescent_openB_eq_activeB hq, hB, electB_single, ← hc']
      simp only [Bool.and_eq_true, List.any_eq_true, beq_iff_eq]
      exact ⟨⟨l', hlw', ⟨rfl, (ql'.2 hlo'A).2⟩, hlo'⟩, by simp⟩
    rw [← hc']
    simp only [liveReadyB, List.mem_filter, List.any_eq_true, Bool.and_eq_true, beq_iff_eq]
    exact ⟨rB _ en, l', hlw', rfl, hlo'⟩

/-- nothing else is live: a live ready session on A / B is an end of a connection open there -/
theorem liveReadyA_open (s : RState) : ∀ a ∈ liveReadyA s, ∃ c ∈ openOnA s.w, a = c.idA := by
  intro a ha
  simp only [liveReadyA, List.mem_filter, List.any_eq_true, Bool.and_eq_true, beq_iff_eq] at ha
  obtain ⟨_, l, hl, hla, hlo⟩ := ha
  exact ⟨l.c, List.mem_map.mpr ⟨l, List.mem_filter.mpr ⟨hl, hlo⟩, rfl⟩, hla.symm⟩
theorem liveReadyB_open (s : RState) : ∀ b ∈ liveReadyB s, ∃ c ∈ openOnB s.w, b = c.idB := by
  intro b hb
  simp only [liveReadyB, List.mem_filter, List.any_eq_true, Bool.and_eq_true, beq_iff_eq] at hb
  obtain ⟨_, l, hl, hla, hlo⟩ := hb
  exact ⟨l.c, List.mem_map.mpr ⟨l, List.mem_filter.mpr ⟨hl, hlo⟩, rfl⟩, hla.symm⟩

/-- a non-empty list all of whose members are `x` has exactly the distinct member `x` -/
theorem eraseDups_all_eq {L : List Nat} {x : Nat} (hx : x ∈ L) (hall : ∀ y ∈ L, y = x) :
    L.eraseDups = [x] := by
  cases L with
  | nil => simp at hx
  | cons y t =>
    have hy : y = x := hall y (by simp)
    subst hy
    have ht : t.filter (fun z => !z == y) = [] := by
      simp only [List.filter_eq_nil_iff]
      intro z hz
      simp [hall z (List.mem_cons_of_mem _ hz)]
    rw [List.eraseDups_cons, ht, List.eraseDups_nil]

/-! ### runs without failing ends are runs of `dRun` -/

/-- not a `failA` / `failB` -/
def ROp.noFail : ROp → Bool
  | .f (.failA _) => false
  | .f (.failB _) => false
  | _ => true

/-- the dial / election ops of a run -/
def rToD : List ROp → List DOp
  | [] => []
  | .f (.dial c) :: rest => .dial c :: rToD rest
  | .f (.hs op) :: rest => .hs op :: rToD rest
  | _ :: rest => rToD rest

def dToF : DOp → FOp
  | .dial c => .dial c
  | .hs op => .hs op

theorem dials_rToD (ops : List ROp) : dials (rToD ops) = fDials (rProj ops) := by
  induction ops with
  | nil => rfl
  | cons x rest ih =>
    cases x with
    | f op => cases op <;> simp [rToD, rProj, dials, fDials, ih]
    | readyA a => simpa [rToD, rProj] using ih
    | readyB b => simpa [rToD, rProj] using ih

theorem rProj_noFail (ops : List ROp) (h : ∀ op ∈ ops, op.noFail = true) :
    rProj ops = (rToD ops).map dToF := by
  induction ops with
  | nil => rfl
  | cons x rest ih =>
    have ih' := ih (fun op hop => h op (List.mem_cons_of_mem _ hop))
    have hx := h x (by simp)
    cases x with
    | f op =>
      cases op with
      | dial c => simp [rToD, rProj, dToF, ih']
      | hs op => simp [rToD, rProj, dToF, ih']
      | failA a => simp [ROp.noFail] at hx
      | failB b => simp [ROp.noFail] at hx
    | readyA a => simpa [rToD, rProj] using ih'
    | readyB b => simpa [rToD, rProj] using ih'

theorem dRun_snd_aux (o : Ordering) (ops : List DOp) : ∀ s : List Conn × List Link,
    (ops.foldl (dStep o) s).2 = (ops.map dToF).foldl (fStep o) s.2 := by
  induction ops with
  | nil => intro s; rfl
  | cons x rest ih =>
    intro s
    simp only [List.foldl_cons, List.map_cons]
    rw [ih]
    cases x <;> rfl

theorem dRun_snd (o : Ordering) (ops : List DOp) : (dRun o ops).2 = fRun o (ops.map dToF) :=
  dRun_snd_aux o ops ([], [])

/-- the world of a run without failing ends is that of the `dRun` of its dial / election ops -/
theorem rRun_noFail (o : Ordering) (ops : List ROp) (h : ∀ op ∈ ops, op.noFail = true) :
    (rRun o ops).w = (dRun o (rToD ops)).2 := by
  rw [rRun_w, rProj_noFail ops h, dRun_snd]

end Election

/-! ## Lingering `node_sessions` entries (`Model/HandshakeLinger.lean`) -/

namespace Election

/-- the pre-check over the real table is still the `preA` step or nothing -/
theorem stepPreLA_cases (o : Ordering) (s : LState) (a : Nat) :
    stepPreLA o s a = stepPreA o s.w a ∨ stepPreLA o s a = s.w := by
  unfold stepPreLA
  split
  · split
    · exact Or.inl rfl
    · exact Or.inr rfl
  · exact Or.inr rfl

theorem stepPreLB_cases (o : Ordering) (s : LState) (b : Nat) :
    stepPreLB o s b = stepPreB o s.w b ∨ stepPreLB o s b = s.w := by
  unfold stepPreLB
  split
  · split
    · exact Or.inl rfl
    · exact Or.inr rfl
  · exact Or.inr rfl

/-- lingering entries whose nonce is not the one asked for are invisible to the lookup -/
theorem matchLA_eq_matchA (s : LState) (n : Nat)
    (h : ∀ k ∈ s.w, s.lingersA k = true → nz k.c.nonce ≠ nz n) : matchLA s n = matchA s.w n := by
  unfold matchLA matchA
  congr 1
  apply List.filter_congr
  intro l hl
  cases ho : l.openA
  · cases hli : s.lingersA l
    · simp
    · have := h l hl hli
      simp [this]
  · simp

theorem matchLB_eq_matchB (s : LState) (n : Nat)
    (h : ∀ k ∈ s.w, s.lingersB k = true → nz k.c.nonce ≠ nz n) : matchLB s n = matchB s.w n := by
  unfold matchLB matchB
  congr 1
  apply List.filter_congr
  intro l hl
  cases ho : l.openB
  · cases hli : s.lingersB l
    · simp
    · have := h l hl hli
      simp [this]
  · simp

/-- once every closed session has been reaped nothing lingers -/
theorem matchLA_all_reaped (s : LState) (n : Nat) (h : s.lingeringA = []) : matchLA s n = matchA s.w n := by
  apply matchLA_eq_matchA
  intro k hk hl
  unfold LState.lingeringA at h
  rw [List.map_eq_nil_iff, List.filter_eq_nil_iff] at h
  exact absurd hl (h k hk)

theorem matchLB_all_reaped (s : LState) (n : Nat) (h : s.lingeringB = []) : matchLB s n = matchB s.w n := by
  apply matchLB_eq_matchB
  intro k hk hl
  unfold LState.lingeringB at h
  rw [List.map_eq_nil_iff, List.filter_eq_nil_iff] at h
  exact absurd hl (h k hk)

/-- no lingering entry carries the asker's nonce ⇒ the pre-check is the one of `Model/Handshake.lean` -/
theorem stepPreLA_eq_stepPreSA (o : Ordering) (s : LState) (a : Nat)
    (h : ∀ l ∈ s.w, l.c.idA = a → ∀ k ∈ s.w, s.lingersA k = true → nz k.c.nonce ≠ nz l.c.nonce) :
    stepPreLA o s a = stepPreSA o s.w a := by
  unfold stepPreLA stepPreSA
  cases hf : s.w.find? (fun l => l.c.idA == a) with
  | none => rfl
  | some l =>
    have hl : l ∈ s.w := List.mem_of_find?_eq_some hf
    have hid : l.c.idA = a := by simpa using List.find?_some hf
    simp only
    rw [matchLA_eq_matchA s l.c.nonce (h l hl hid)]

theorem stepPreLB_eq_stepPreSB (o : Ordering) (s : LState) (b : Nat)
    (h : ∀ l ∈ s.w, l.c.idB = b → ∀ k ∈ s.w, s.lingersB k = true → nz k.c.nonce ≠ nz l.c.nonce) :
    stepPreLB o s b = stepPreSB o s.w b := by
  unfold stepPreLB stepPreSB
  cases hf : s.w.find? (fun l => l.c.idB == b) with
  | none => rfl
  | some l =>
    have hl : l ∈ s.w := List.mem_of_find?_eq_some hf
    have hid : l.c.idB = b := by simpa using List.find?_some hf
    simp only
    rw [matchLB_eq_matchB s l.c.nonce (h l hl hid)]

theorem nz_inj {m n : Nat} (hm : m ≠ 0) (h : nz m = nz n) : m = n := by
  unfold nz at h
  by_cases hn : n = 0
  · subst hn; simp [hm] at h
  · simpa [hm, hn] using h

/-- wire-valid (non-zero), pairwise distinct nonces: an OPEN asker never shares its nonce with a
lingering entry, so the lingering entries are invisible -/
theorem stepPreLA_unique_nonces (o : Ordering) (s : LState) (a : Nat)
    (hnz : ∀ l ∈ s.w, l.c.nonce ≠ 0) (hnd : (s.w.map (fun l => l.c.nonce)).Nodup)
    (hopen : ∀ l ∈ s.w, l.c.idA = a → l.openA = true) :
    stepPreLA o s a = stepPreSA o s.w a := by
  apply stepPreLA_eq_stepPreSA
  intro l hl hid k hk hli heq
  have hkl : k = l := nodup_map_inj' (fun l : Link => l.c.nonce) hnd hk hl (nz_inj (hnz k hk) heq)
  subst hkl
  have := hopen k hl hid
  simp [LState.lingersA, this] at hli

theorem stepPreLB_unique_nonces (o : Ordering) (s : LState) (b : Nat)
    (hnz : ∀ l ∈ s.w, l.c.nonce ≠ 0) (hnd : (s.w.map (fun l => l.c.nonce)).Nodup)
    (hopen : ∀ l ∈ s.w, l.c.idB = b → l.openB = true) :
    stepPreLB o s b = stepPreSB o s.w b := by
  apply stepPreLB_eq_stepPreSB
  intro l hl hid k hk hli heq
  have hkl : k = l := nodup_map_inj' (fun l : Link => l.c.nonce) hnd hk hl (nz_inj (hnz k hk) heq)
  subst hkl
  have := hopen k hl hid
  simp [LState.lingersB, this] at hli

/-- a run with lingering entries, reaps and real-table pre-checks moves the world like a run of `fStep` -/
theorem lRun_aux (o : Ordering) (ops : List LOp) : ∀ s : LState,
    ∃ fops : List FOp, (ops.foldl (lStep o) s).w = fops.foldl (fStep o) s.w ∧ fDials fops = lDials ops := by
  induction ops with
  | nil => intro s; exact ⟨[], rfl, rfl⟩
  | cons x rest ih =>
    intro s
    simp only [List.foldl_cons]
    obtain ⟨fops, h1, h2⟩ := ih (lStep o s x)
    cases x with
    | f op =>
      refine ⟨op :: fops, by rw [h1]; rfl, ?_⟩
      rw [fDials_cons, h2]
      cases op <;> simp [fDials, lDials]
    | reapA a =>
      refine ⟨fops, ?_, by simpa [lDials] using h2⟩
      rw [h1]; simp only [lStep]; split <;> rfl
    | reapB b =>
      refine ⟨fops, ?_, by simpa [lDials] using h2⟩
      rw [h1]; simp only [lStep]; split <;> rfl
    | preSA a =>
      rcases stepPreLA_cases o s a with h | h
      · refine ⟨.hs (.preA a) :: fops, ?_, by rw [fDials_cons, h2]; simp [fDials, lDials]⟩
        rw [h1]; simp only [lStep, List.foldl_cons, fStep, hsStep, h]
      · refine ⟨fops, ?_, by simpa [lDials] using h2⟩
        rw [h1]; simp only [lStep, h]
    | preSB b =>
      rcases stepPreLB_cases o s b with h | h
      · refine ⟨.hs (.preB b) :: fops, ?_, by rw [fDials_cons, h2]; simp [fDials, lDials]⟩
        rw [h1]; simp only [lStep, List.foldl_cons, fStep, hsStep, h]
      · refine ⟨fops, ?_, by simpa [lDials] using h2⟩
        rw [h1]; simp only [lStep, h]

theorem lRun_is_fRun (o : Ordering) (ops : List LOp) :
    ∃ fops : List FOp, (lRun o ops).w = fRun o fops ∧ fDials fops = lDials ops :=
  lRun_aux o ops {}

end Election

/-! ### the lingering entries in the `NodeServerState` -/

namespace Election

/-- the `node_sessions` entry of a link's A-end: a closed (lingering) session is no member of
`authenticated_sessions` (`commit_authenticated` removed the loser; a session that gave up before
authenticating never was one) -/
def sessLA (nameB : String) (l : Link) : Session :=
  ⟨l.c.idA, !l.c.aInit, some nameB, nz l.c.nonce, l.authA && l.openA⟩

/-- node A's real table: one entry per session that is open OR lingers -/
def nsOfLA (nameA nameB : String) (s : LState) : NS :=
  { thisName := nameA, sessions := (s.w.filter (fun l => l.openA || s.lingersA l)).map (sessLA nameB) }

theorem nsOfLA_matching (nameA nameB : String) (s : LState) (n : Nat) :
    (nsOfLA nameA nameB s).matching nameB n = matchLA s n := by
  unfold NS.matching nsOfLA matchLA
  simp only [nz_ite, List.filter_map, List.map_map, List.filter_filter]
  have hm : (fun x : Session => x.id) ∘ sessLA nameB = fun l : Link => l.c.idA := by funext l; rfl
  rw [hm]
  congr 1
  apply List.filter_congr
  intro l _
  simp [sessLA, Function.comp, Bool.and_comm]

/-- the lingering entries are no election candidates -/
theorem nsOfLA_candidates (nameA nameB : String) (s : LState) (peer : String) :
    (nsOfLA nameA nameB s).candidatesFor peer true = (nsOfA nameA nameB s.w).candidatesFor peer true := by
  unfold NS.candidatesFor nsOfLA nsOfA
  simp only [List.filter_map, List.map_map, List.filter_filter]
  have hm : Session.toCand ∘ sessLA nameB = Session.toCand ∘ sessA nameB := by funext l; rfl
  rw [hm]
  congr 1
  apply List.filter_congr
  intro l _
  cases ho : l.openA <;> simp [sessLA, sessA, Function.comp, ho]

theorem find_filter_map_nodup (g : Link → Session) (hg : ∀ k, (g k).id = k.c.idA) (p : Link → Bool) :
    ∀ (L : List Link), ((L.map (·.c)).map (·.idA)).Nodup → ∀ l ∈ L, p l = true →
      ((L.filter p).map g).find? (·.id == l.c.idA) = some (g l) := by
  intro L
  induction L with
  | nil => intro _ l hl; simp at hl
  | cons x t ih =>
    intro hnd l hl hp
    simp only [List.map_cons, List.nodup_cons] at hnd
    rcases List.mem_cons.mp hl with rfl | hlt
    · simp [hp, hg]
    · have hne : x.c.idA ≠ l.c.idA := by
        intro h
        exact hnd.1 (List.mem_map.mpr ⟨l.c, List.mem_map.mpr ⟨l, hlt, rfl⟩, h.symm⟩)
      rw [List.filter_cons]
      split
      · rw [List.map_cons, List.find?_cons]
        have hb : (x.c.idA == l.c.idA) = false := by simpa using hne
        simp only [hg, hb]
        exact ih hnd.2 l hlt hp
      · exact ih hnd.2 l hlt hp

theorem checkCandidate_congr (st st' : NS) (id : Nat) (hn : st.thisName = st'.thisName)
    (hf : st.find id = st'.find id) (hc : ∀ peer, st.candidatesFor peer true = st'.candidatesFor peer true) :
    st.checkCandidate id = st'.checkCandidate id := by
  unfold NS.checkCandidate
  rw [hf, hn]
  simp only [hc]

/-- `check_candidate` of an OPEN session does not see the lingering entries -/
theorem checkCandidate_nsOfLA (nameA nameB : String) (s : LState)
    (hnd : ((s.w.map (·.c)).map (·.idA)).Nodup) (l : Link) (hl : l ∈ s.w) (ho : l.openA = true) :
    (nsOfLA nameA nameB s).checkCandidate l.c.idA = (nsOfA nameA nameB s.w).checkCandidate l.c.idA := by
  refine checkCandidate_congr (nsOfLA nameA nameB s) (nsOfA nameA nameB s.w) _ rfl ?_ (nsOfLA_candidates nameA nameB s)
  unfold NS.find nsOfLA nsOfA
  simp only
  rw [find_filter_map_nodup (sessLA nameB) (fun _ => rfl) _ s.w hnd l hl (by simp [ho]),
    find_filter_map_nodup (sessA nameB) (fun _ => rfl) _ s.w hnd l hl ho]
  simp [sessLA, sessA, ho]

/-- **`check_session` on the table with the lingering entries** answers what it answers on the
table without them, whenever no lingering entry carries the nonce asked for. -/
theorem checkSession_nsOfLA (nameA nameB : String) (s : LState) (n : Nat)
    (hnd : ((s.w.map (·.c)).map (·.idA)).Nodup)
    (h : ∀ k ∈ s.w, s.lingersA k = true → nz k.c.nonce ≠ nz n) :
    (nsOfLA nameA nameB s).checkSession nameB n = (nsOfA nameA nameB s.w).checkSession nameB n := by
  rw [checkSession_eq, checkSession_eq, nsOfLA_matching, nsOfA_matching, matchLA_eq_matchA s n h,
    nsOfLA_candidates]
  match hm : matchA s.w n with
  | [] => rfl
  | [a] =>
    simp only
    have : a ∈ matchA s.w n := by rw [hm]; simp
    unfold matchA at this
    simp only [List.mem_map, List.mem_filter, Bool.and_eq_true] at this
    obtain ⟨l, ⟨hl, ho, _⟩, rfl⟩ := this
    exact checkCandidate_nsOfLA nameA nameB s hnd l hl ho
  | _ :: _ :: _ => rfl

/-- with several matches — open or lingering — the reply is `NoOtherConnection` -/
theorem checkSession_nsOfLA_ambiguous (nameA nameB : String) (s : LState) (n : Nat)
    (h : 2 ≤ (matchLA s n).length) : (nsOfLA nameA nameB s).checkSession nameB n = .noOther := by
  rw [checkSession_eq, nsOfLA_matching]
  match hm : matchLA s n, h with
  | [], h => simp at h
  | [_], h => simp at h
  | _ :: _ :: _, _ => rfl

end Election

/-! ## Failing ends that spare the winner (late dials AND failures): the winner stays up -/

namespace Election

/-- the op is no `failA` / `failB` of an end of `acc` -/
def FOp.spares (acc : Conn) : FOp → Bool
  | .failA a => a != acc.idA
  | .failB b => b != acc.idB
  | _ => true

def ROp.spares (acc : Conn) : ROp → Bool
  | .f op => op.spares acc
  | _ => true

/-- a step that is no dial and does not name `c` -/
def FOp.free (c : Conn) : FOp → Prop
  | .dial _ => False
  | .hs op => op.free c
  | .failA a => a ≠ c.idA
  | .failB b => b ≠ c.idB

/-- a step that is no dial and names a connection of `cs` -/
def FOp.known (cs : List Conn) : FOp → Prop
  | .dial _ => False
  | .hs op => op.known cs
  | .failA a => a ∈ cs.map (·.idA)
  | .failB b => b ∈ cs.map (·.idB)

instance (cs : List Conn) (op : FOp) : Decidable (op.known cs) := by
  cases op <;> unfold FOp.known <;> infer_instance

theorem fStep_append_fresh (o : Ordering) (w : List Link) (c : Conn) (op : FOp) (hf : op.free c) :
    fStep o (w ++ [freshLink c]) op = fStep o w op ++ [freshLink c] := by
  cases op with
  | dial c' => exact absurd hf (by simp [FOp.free])
  | hs op => exact hsStep_append_fresh o w c op hf
  | failA a =>
    have : ¬ c.idA = a := by
      simp only [FOp.free] at hf
      exact fun h => hf h.symm
    simp [fStep, freshLink, this]
  | failB b =>
    have : ¬ c.idB = b := by
      simp only [FOp.free] at hf
      exact fun h => hf h.symm
    simp [fStep, freshLink, this]

theorem fFoldl_append_fresh (o : Ordering) (c : Conn) (ops : List FOp) (hf : ∀ op ∈ ops, op.free c) :
    ∀ w, ops.foldl (fStep o) (w ++ [freshLink c]) = ops.foldl (fStep o) w ++ [freshLink c] := by
  induction ops with
  | nil => intro w; rfl
  | cons op t ih =>
    intro w
    simp only [List.foldl_cons]
    rw [fStep_append_fresh o w c op (hf op (by simp))]
    exact ih (fun op' h => hf op' (by simp [h])) _

theorem fStep_unknown (o : Ordering) (w : List Link) (op : FOp) (hd : ∀ c, op ≠ .dial c)
    (h : ¬ op.known (w.map (·.c))) : fStep o w op = w := by
  cases op with
  | dial c => exact absurd rfl (hd c)
  | hs op => exact hsStep_unknown o w op h
  | failA a =>
    simp only [fStep]
    apply map_noop
    intro l hl
    have : (l.c.idA == a) = false := by
      apply beq_eq_false_iff_ne.mpr
      intro he
      exact h (by simp only [FOp.known, List.map_map, List.mem_map]; exact ⟨l, hl, he⟩)
    simp [this]
  | failB b =>
    simp only [fStep]
    apply map_noop
    intro l hl
    have : (l.c.idB == b) = false := by
      apply beq_eq_false_iff_ne.mpr
      intro he
      exact h (by simp only [FOp.known, List.map_map, List.mem_map]; exact ⟨l, hl, he⟩)
    simp [this]

theorem fKnown_free {cs : List Conn} {c : Conn} {op : FOp}
    (hA : c.idA ∉ cs.map (·.idA)) (hB : c.idB ∉ cs.map (·.idB)) (h : op.known cs) : op.free c := by
  cases op with
  | dial c' => exact h
  | hs op => exact known_free hA hB h
  | failA a => simp only [FOp.known, FOp.free] at h ⊢; intro he; subst he; exact hA h
  | failB b => simp only [FOp.known, FOp.free] at h ⊢; intro he; subst he; exact hB h

theorem fKnown_mono {cs : List Conn} {c : Conn} {op : FOp} (h : op.known cs) : op.known (cs ++ [c]) := by
  cases op with
  | dial c' => exact h
  | hs op => exact known_mono h
  | failA a => simp only [FOp.known, List.map_append, List.mem_append] at h ⊢; exact Or.inl h
  | failB b => simp only [FOp.known, List.map_append, List.mem_append] at h ⊢; exact Or.inl h

/-- `w` is what a dial-free run over its own connections, all there from the start, produces — with
steps that name those connections only and spare `acc` -/
def GInv (o : Ordering) (acc : Conn) (w : List Link) : Prop :=
  ∃ ops' : List FOp, (∀ op ∈ ops', op.known (w.map (·.c)) ∧ op.spares acc = true) ∧
    w = ops'.foldl (fStep o) (hsInit (w.map (·.c)))

theorem GInv.step (o : Ordering) (acc : Conn) (w : List Link) (x : FOp) (I : GInv o acc w)
    (hsp : x.spares acc = true)
    (hfresh : ∀ c, x = .dial c → c.idA ∉ (w.map (·.c)).map (·.idA) ∧ c.idB ∉ (w.map (·.c)).map (·.idB)) :
    GInv o acc (fStep o w x) := by
  obtain ⟨ops', hk, hw⟩ := I
  by_cases hd : ∃ c, x = .dial c
  · obtain ⟨c, rfl⟩ := hd
    obtain ⟨hA, hB⟩ := hfresh c rfl
    have hcs : (fStep o w (.dial c)).map (·.c) = w.map (·.c) ++ [c] := by simp [fStep]
    refine ⟨ops', fun op hop => ⟨by rw [hcs]; exact fKnown_mono (hk op hop).1, (hk op hop).2⟩, ?_⟩
    rw [hcs]
    have hi : hsInit (w.map (·.c) ++ [c]) = hsInit (w.map (·.c)) ++ [freshLink c] := by simp [hsInit, freshLink]
    rw [hi, fFoldl_append_fresh o c ops' (fun op hop => fKnown_free hA hB (hk op hop).1), ← hw]
    rfl
  · have hd' : ∀ c, x ≠ .dial c := fun c h => hd ⟨c, h⟩
    have hcs : (fStep o w x).map (·.c) = w.map (·.c) := by
      rw [fStep_conns]
      cases x with
      | dial c => exact absurd rfl (hd' c)
      | _ => simp [fDials]
    by_cases hkn : x.known (w.map (·.c))
    · refine ⟨ops' ++ [x], ?_, ?_⟩
      · intro op' hop'
        rw [hcs]
        rcases List.mem_append.mp hop' with h | h
        · exact hk op' h
        · simp only [List.mem_singleton] at h; subst h; exact ⟨hkn, hsp⟩
      · rw [hcs, List.foldl_append, ← hw]; rfl
    · rw [fStep_unknown o w x hd' hkn]
      exact ⟨ops', hk, hw⟩

theorem gRun_aux (o : Ordering) (acc : Conn) (ops : List FOp) (hsp : ∀ op ∈ ops, op.spares acc = true) :
    ∀ w : List Link, GInv o acc w →
    (((w.map (·.c)) ++ fDials ops).map (·.idA)).Nodup → (((w.map (·.c)) ++ fDials ops).map (·.idB)).Nodup →
    GInv o acc (ops.foldl (fStep o) w) := by
  induction ops with
  | nil => intro w I _ _; exact I
  | cons x rest ih =>
    intro w I hA hB
    simp only [List.foldl_cons]
    rw [fDials_cons, ← List.append_assoc] at hA hB
    have hfresh : ∀ c, x = .dial c → c.idA ∉ (w.map (·.c)).map (·.idA) ∧ c.idB ∉ (w.map (·.c)).map (·.idB) := by
      intro c hx
      subst hx
      simp only [fDials, List.map_append, List.map_cons, List.map_nil] at hA hB
      have hA1 := (List.nodup_append.mp (List.nodup_append.mp hA).1).2.2
      have hB1 := (List.nodup_append.mp (List.nodup_append.mp hB).1).2.2
      exact ⟨fun hin => hA1 _ hin _ (by simp) rfl, fun hin => hB1 _ hin _ (by simp) rfl⟩
    apply ih (fun op hop => hsp op (List.mem_cons_of_mem _ hop)) _
      (I.step o acc w x (hsp x (by simp)) hfresh)
    · rw [fStep_conns]; exact hA
    · rw [fStep_conns]; exact hB

/-- the `HInv` invariant survives failing ends that are not the winner's -/
theorem HInv.fStep_spares {o : Ordering} {cs : List Conn} {acc : Conn} {w : List Link}
    (X : Ctx o cs acc) (I : HInv cs acc w) (x : FOp) (hk : x.known cs) (hsp : x.spares acc = true) :
    HInv cs acc (fStep o w x) := by
  cases x with
  | dial c => exact absurd hk (by simp [FOp.known])
  | hs op => exact I.step X op
  | failA a =>
    apply I.closeA_step (dropA a) (dropA_c a) (dropA_keeps a)
    intro l _ hl
    have : (l.c.idA == a) = false := by
      rw [hl]; simp only [FOp.spares, bne_iff_ne, ne_eq] at hsp
      exact beq_eq_false_iff_ne.mpr (fun h => hsp h.symm)
    simp [dropA, this]
  | failB b =>
    apply I.closeB_step (dropB b) (dropB_c b) (dropB_keeps b)
    intro l _ hl
    have : (l.c.idB == b) = false := by
      rw [hl]; simp only [FOp.spares, bne_iff_ne, ne_eq] at hsp
      exact beq_eq_false_iff_ne.mpr (fun h => hsp h.symm)
    simp [dropB, this]

theorem HInv.fFoldl_spares {o : Ordering} {cs : List Conn} {acc : Conn} (X : Ctx o cs acc)
    (ops : List FOp) (hk : ∀ op ∈ ops, op.known cs ∧ op.spares acc = true) :
    ∀ w, HInv cs acc w → HInv cs acc (ops.foldl (fStep o) w) := by
  induction ops with
  | nil => intro w I; exact I
  | cons x t ih =>
    intro w I
    exact ih (fun op hop => hk op (List.mem_cons_of_mem _ hop)) _
      (I.fStep_spares X x (hk x (by simp)).1 (hk x (by simp)).2)

/-- **late dials, election steps and failing ends that spare the winner**: the `HInv` invariant of the
winner over ALL connections dialled holds at the end of the run -/
theorem fRun_spares_inv (o : Ordering) (ops : List FOp) (acc : Conn) (X : Ctx o (fDials ops) acc)
    (hsp : ∀ op ∈ ops, op.spares acc = true) : HInv (fDials ops) acc (fRun o ops) := by
  have I0 : GInv o acc ([] : List Link) := ⟨[], by simp, by simp [hsInit]⟩
  obtain ⟨ops', hk, hw⟩ := gRun_aux o acc ops hsp [] I0 (by simpa using X.hA) (by simpa using X.hB)
  have hc := fRun_conns o ops
  unfold fRun at hc ⊢
  rw [hc] at hk hw
  rw [hw]
  exact HInv.fFoldl_spares X ops' hk _ (hsInit_inv _ acc)

end Election

namespace Election

theorem rProj_spares (acc : Conn) (ops : List ROp) (h : ∀ op ∈ ops, op.spares acc = true) :
    ∀ op ∈ rProj ops, op.spares acc = true := by
  induction ops with
  | nil => intro op hop; simp [rProj] at hop
  | cons x rest ih =>
    have ih' := ih (fun op hop => h op (List.mem_cons_of_mem _ hop))
    have hx := h x (by simp)
    cases x with
    | f op =>
      intro op' hop'
      simp only [rProj, List.mem_cons] at hop'
      rcases hop' with rfl | h'
      · exact hx
      · exact ih' op' h'
    | readyA a => simpa [rProj] using ih'
    | readyB b => simpa [rProj] using ih'

end Election
