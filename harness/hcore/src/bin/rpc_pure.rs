//! C09 E-PURE: the real `ractor::rpc::CallResult` combinators (`ractor/src/rpc/call_result.rs`) and
//! the real `impl From<CallResult<_>> for RactorErr<_>` (`ractor/src/errors.rs`), called directly.
//!
//! op   `cr <S<v>|T|E> <d> <add:k|mul:k|const:k> <e> <msg>`
//!        the CallResult under test, the default value, the mapping, the error value, the `expect` text
//! impl `is=<s><t><e>; unwrap=<ok:v|panic:text>; expect=…; unwrap_or=v; unwrap_or_else=v/calls;
//!       success_or=<ok:v|err:e>; success_or_else=<ok:v|err:e>/calls; map=<S:v|T|E>; map_calls=n;
//!       map_or=v; map_or_else=v/default-calls/mapping-calls; to_err=<ok:Timeout|ok:ChannelClosed|panic:text>`
//!      (`calls` = how often the closure handed to the combinator ran; panics are caught and their
//!      message recorded)
//!
//! usage: rpc_pure --seed S --cases N --out DIR [--replay-ops f1,f2 --only-replay 1]

use std::cell::Cell;
use std::panic::{catch_unwind, AssertUnwindSafe};

use hutil::{Args, Log, Rng, Stats};
use ractor::rpc::CallResult;
use ractor::{MessagingErr, RactorErr};

const MSGS: [&str; 4] = ["boom", "x", "no-reply", "E42"];

fn static_msg(m: &str) -> &'static str {
    MSGS.iter().copied().find(|x| *x == m).unwrap_or("boom")
}

#[derive(Clone, Copy)]
enum Var {
    S(u64),
    T,
    E,
}

fn mk(v: Var) -> CallResult<u64> {
    match v {
        Var::S(x) => CallResult::Success(x),
        Var::T => CallResult::Timeout,
        Var::E => CallResult::SenderError,
    }
}

fn parse_var(s: &str) -> Option<Var> {
    match s {
        "T" => Some(Var::T),
        "E" => Some(Var::E),
        _ => s.strip_prefix('S').and_then(|x| x.parse().ok()).map(Var::S),
    }
}

#[derive(Clone, Copy)]
enum Fun {
    Add(u64),
    Mul(u64),
    Const(u64),
}

impl Fun {
    fn ap(self, v: u64) -> u64 {
        match self {
            Fun::Add(k) => v + k,
            Fun::Mul(k) => v * k,
            Fun::Const(k) => k,
        }
    }
}

fn parse_fun(s: &str) -> Option<Fun> {
    let (n, k) = s.split_once(':')?;
    let k: u64 = k.parse().ok()?;
    match n {
        "add" => Some(Fun::Add(k)),
        "mul" => Some(Fun::Mul(k)),
        "const" => Some(Fun::Const(k)),
        _ => None,
    }
}

fn panic_text(p: Box<dyn std::any::Any + Send>) -> String {
    if let Some(s) = p.downcast_ref::<&'static str>() {
        (*s).to_string()
    } else if let Some(s) = p.downcast_ref::<String>() {
        s.clone()
    } else {
        "<non-string panic payload>".into()
    }
}

fn show_exc(r: Result<u64, Box<dyn std::any::Any + Send>>) -> String {
    match r {
        Ok(v) => format!("ok:{v}"),
        Err(p) => format!("panic:{}", panic_text(p)),
    }
}

fn show_res(r: Result<u64, u64>) -> String {
    match r {
        Ok(v) => format!("ok:{v}"),
        Err(e) => format!("err:{e}"),
    }
}

fn exec(op: &str, st: &mut Stats) -> String {
    let w: Vec<&str> = op.split_whitespace().collect();
    let ["cr", v, d, f, e, msg] = w.as_slice() else { return "bad-op".into() };
    let (Some(v), Ok(d), Some(f), Ok(e)) = (parse_var(v), d.parse::<u64>(), parse_fun(f), e.parse::<u64>()) else {
        return "bad-op".into();
    };
    let msg = static_msg(msg);
    st.bump(match v {
        Var::S(_) => "variant_success",
        Var::T => "variant_timeout",
        Var::E => "variant_sender_error",
    });

    let flags = format!("{}{}{}", mk(v).is_success() as u8, mk(v).is_timeout() as u8, mk(v).is_send_error() as u8);
    let unwrap = show_exc(catch_unwind(AssertUnwindSafe(|| mk(v).unwrap())));
    let expect = show_exc(catch_unwind(AssertUnwindSafe(|| mk(v).expect(msg))));
    if unwrap.starts_with("panic:") {
        st.bump("panics_caught");
    }
    let unwrap_or = mk(v).unwrap_or(d);

    let calls = Cell::new(0u64);
    let uoe = mk(v).unwrap_or_else(|| {
        calls.set(calls.get() + 1);
        d
    });
    let uoe_calls = calls.get();

    let success_or = show_res(mk(v).success_or(e));
    calls.set(0);
    let soe = show_res(mk(v).success_or_else(|| {
        calls.set(calls.get() + 1);
        e
    }));
    let soe_calls = calls.get();

    calls.set(0);
    let mapped = mk(v).map(|x| {
        calls.set(calls.get() + 1);
        f.ap(x)
    });
    let map_calls = calls.get();
    let mapped = match mapped {
        CallResult::Success(x) => format!("S:{x}"),
        CallResult::Timeout => "T".to_string(),
        CallResult::SenderError => "E".to_string(),
    };

    let map_or = mk(v).map_or(f.ap(d), |x| f.ap(x));
    let dcalls = Cell::new(0u64);
    let mcalls = Cell::new(0u64);
    let moe = mk(v).map_or_else(
        || {
            dcalls.set(dcalls.get() + 1);
            f.ap(d)
        },
        |x| {
            mcalls.set(mcalls.get() + 1);
            f.ap(x)
        },
    );

    let to_err = match catch_unwind(AssertUnwindSafe(|| {
        let e: RactorErr<()> = mk(v).into();
        e
    })) {
        Ok(RactorErr::Timeout) => "ok:Timeout".to_string(),
        Ok(RactorErr::Messaging(MessagingErr::ChannelClosed)) => "ok:ChannelClosed".to_string(),
        Ok(other) => format!("ok:other:{other:?}"),
        Err(p) => format!("panic:{}", panic_text(p)),
    };

    format!(
        "is={flags}; unwrap={unwrap}; expect={expect}; unwrap_or={unwrap_or}; unwrap_or_else={uoe}/{uoe_calls}; \
         success_or={success_or}; success_or_else={soe}/{soe_calls}; map={mapped}; map_calls={map_calls}; \
         map_or={map_or}; map_or_else={moe}/{}/{}; to_err={to_err}",
        dcalls.get(),
        mcalls.get()
    )
}

fn exhaustive() -> Vec<String> {
    let mut out = Vec::new();
    for v in ["S0", "S1", "S7", "T", "E"] {
        for d in [0u64, 3] {
            for f in ["add:1", "mul:2", "const:9"] {
                for e in [0u64, 4] {
                    for msg in ["boom", "x"] {
                        out.push(format!("cr {v} {d} {f} {e} {msg}"));
                    }
                }
            }
        }
    }
    out
}

fn gen(rng: &mut Rng) -> String {
    let v = match rng.below(4) {
        0 => "T".to_string(),
        1 => "E".to_string(),
        _ => format!("S{}", rng.below(1000)),
    };
    let f = match rng.below(3) {
        0 => format!("add:{}", rng.below(100)),
        1 => format!("mul:{}", rng.below(20)),
        _ => format!("const:{}", rng.below(1000)),
    };
    format!("cr {v} {} {f} {} {}", rng.below(1000), rng.below(1000), rng.pick(&MSGS))
}

fn main() {
    let args = Args::parse();
    let seed = args.u64("seed", 1);
    let cases = args.u64("cases", 2000);
    let out = args.str("out", "/tmp/ports-rpc-pure");
    // the panics under test are expected: keep stderr quiet
    std::panic::set_hook(Box::new(|_| {}));
    let mut rng = Rng::new(seed ^ 0xC09);
    let mut log = Log::create(std::path::Path::new(&out)).unwrap();
    let mut st = Stats::default();
    for f in args.str("replay-ops", "").split(',').filter(|f| !f.is_empty()) {
        if let Ok(txt) = std::fs::read_to_string(f) {
            for l in txt.lines().map(|l| l.trim()).filter(|l| l.starts_with("cr ")) {
                let obs = exec(l, &mut st);
                log.rec(l, obs);
                st.bump("replayed");
            }
        }
    }
    if args.u64("only-replay", 0) != 1 {
        for op in exhaustive() {
            let obs = exec(&op, &mut st);
            log.rec(&op, obs);
            st.bump("exhaustive");
        }
        for _ in 0..cases {
            let op = gen(&mut rng);
            let obs = exec(&op, &mut st);
            log.rec(&op, obs);
            st.bump("random");
        }
    }
    st.add("lines", log.lines);
    st.write_json(&std::path::Path::new(&out).join("stats.json"));
    log.finish();
}
