import RactorModel.Lemmas.GenFrame
namespace C19
section XlateTie
open Generated.Frame GenFrame

theorem generated_checked_frame_length_eq_model (len max : Nat) :
    (checked_frame_length len max).mapError absErr = Codec.checkedFrameLength len max := by
  unfold checked_frame_length Codec.checkedFrameLength
  by_cases h1 : len > max
  · simp [h1, Except.mapError, absErr]
  · have hx : Rust.unwrap (Rust.tryFrom 64 9223372036854775807) = Codec.isizeMax := by decide
    simp only [h1, decide_false, Bool.false_eq_true, ↓reduceIte, hx]
    by_cases h2 : len > Codec.isizeMax
    · simp [h2, Except.mapError, absErr]
    · have h3 : len < 2 ^ 64 := by unfold Codec.isizeMax at h2; omega
      simp [h2, Rust.tryFrom, h3, Rust.okOr, Except.mapError]

theorem generated_frame_constants :
    FRAME_READ_CHUNK_SIZE = Codec.chunkSize ∧ DEFAULT_MAX_INBOUND_FRAME_SIZE = Codec.defaultMaxFrame := by
  decide

/-- write side: `encode_network_message` appends the 8-byte big-endian length and the payload,
i.e. `Codec.encodeFrame` (for a payload whose length fits `u64`, else the real code panics). -/
theorem generated_encode_network_message_eq_model (msg buf : List UInt8) (h : msg.length < 2 ^ 64) :
    encode_network_message msg buf = buf ++ Codec.encodeFrame msg := by
  simp [encode_network_message, Codec.encodeFrame, Rust.unwrap, Rust.tryFrom, h, List.append_assoc]
end XlateTie
end C19
