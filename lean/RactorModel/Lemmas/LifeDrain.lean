import RactorModel.Lemmas.LifeLive

/-! Liveness of `drain` (wave 2): once the drain marker is in the mailbox the actor reaches `Stopped` after
`dmeas` effective polls, where `dmeas` counts the phase rank, the mailbox items in front of the marker and the
queued supervision events — the only thing the environment can add to (`supArrive`, one per event). -/

namespace Life.Liveness
open Life

/-- number of mailbox items in front of the (first) drain marker -/
def dpos : List Item → Nat
  | [] => 0
  | .drain :: _ => 0
  | _ :: q => dpos q + 1

theorem dpos_append (q l : List Item) (h : Item.drain ∈ q) : dpos (q ++ l) = dpos q := by
  induction q with
  | nil => cases h
  | cons x q ih =>
    cases x with
    | drain => rfl
    | msg m =>
      have : Item.drain ∈ q := by simpa using h
      simp [dpos, ih this]
    | call k =>
      have : Item.drain ∈ q := by simpa using h
      simp [dpos, ih this]

/-- The marker is in the mailbox, or `post_stop` is open. -/
def DrainPend (a : Actor) : Prop := Item.drain ∈ a.msgQ ∨ ∃ r, a.phase = .postStop r

/-- what is left to do: phase rank + supervision events queued + mailbox items in front of the marker -/
def dmeas (a : Actor) : Nat :=
  match a.phase with
  | .postStop _ => 1
  | .fresh | .done => 0
  | _ => rank a + a.supQ.length + dpos a.msgQ

theorem dmeas_postStop {x : Actor} {r : Reason} (h : x.phase = .postStop r) : dmeas x = 1 := by simp [dmeas, h]

theorem dmeas_pos {a : Actor} (h : Alive a) : 1 ≤ dmeas a := by
  obtain ⟨h1, h2, _⟩ := h
  cases hp : a.phase <;> simp_all [dmeas, rank] <;> omega

/-- control state and queues kept (mailbox: up to appending behind the marker) -/
structure KeepD (a a' : Actor) : Prop where
  phase : a'.phase = a.phase
  armed : a'.armed = a.armed
  supQ : a'.supQ = a.supQ
  msg : Item.drain ∈ a.msgQ → Item.drain ∈ a'.msgQ ∧ dpos a'.msgQ = dpos a.msgQ

theorem KeepD.rfl' (a : Actor) : KeepD a a := ⟨rfl, rfl, rfl, fun h => ⟨h, rfl⟩⟩

theorem KeepD.trans {a b c : Actor} (h1 : KeepD a b) (h2 : KeepD b c) : KeepD a c :=
  ⟨h2.phase.trans h1.phase, h2.armed.trans h1.armed, h2.supQ.trans h1.supQ,
   fun h => ⟨(h2.msg (h1.msg h).1).1, ((h2.msg (h1.msg h).1).2).trans (h1.msg h).2⟩⟩

theorem KeepD.dmeas {a x : Actor} (k : KeepD a x) (hd : DrainPend a) : dmeas x = dmeas a := by
  rcases hd with hd | ⟨r, hr⟩
  · have := k.msg hd
    simp only [Liveness.dmeas, k.phase, rank, k.supQ, this.2]
  · simp [Liveness.dmeas, k.phase, hr]

theorem KeepD.pend {a x : Actor} (k : KeepD a x) (hd : DrainPend a) : DrainPend x := by
  rcases hd with hd | ⟨r, hr⟩
  · exact Or.inl (k.msg hd).1
  · exact Or.inr ⟨r, by rw [k.phase]; exact hr⟩

theorem keepD_append (a : Actor) (l : List Item) (x : Actor) (hp : x.phase = a.phase) (ha : x.armed = a.armed)
    (hs : x.supQ = a.supQ) (hm : x.msgQ = a.msgQ ++ l) : KeepD a x :=
  ⟨hp, ha, hs, fun h => ⟨by rw [hm]; exact List.mem_append_left _ h, by rw [hm]; exact dpos_append _ _ h⟩⟩

theorem runFx_keepD (a : Actor) (f : Fx) : KeepD a (runFx a f).1 := by
  cases f <;> simp only [runFx, apiSend, apiStop, apiKill]
  all_goals (repeat' split) <;> first
    | exact KeepD.rfl' a
    | exact keepD_append a _ _ rfl rfl rfl rfl
    | exact ⟨rfl, rfl, rfl, fun h => ⟨h, rfl⟩⟩

theorem runFxs_keepD (fs : List Fx) (a : Actor) : KeepD a (runFxs a fs).1 := by
  induction fs generalizing a with
  | nil => exact KeepD.rfl' a
  | cons f fs ih =>
    simp only [runFxs, andThen_fst]
    exact (runFx_keepD a f).trans (ih _)

/-- `a ⟶ x` for the drain measure; `extra` = what the environment added (one per `supArrive`) -/
def ProgD (a x : Actor) (strict : Bool) (extra : Nat) : Prop :=
  Dead x ∨ (Alive x ∧ (DrainPend a → DrainPend x ∧ dmeas x ≤ dmeas a + extra ∧ (strict = true → dmeas x < dmeas a)))

theorem ProgD.of_keep {a x : Actor} (h : Alive a) (k : KeepD a x) : ProgD a x false 0 := by
  right
  refine ⟨⟨by rw [k.phase]; exact h.1, by rw [k.phase]; exact h.2.1, by rw [k.armed]; exact h.2.2⟩, fun hs => ?_⟩
  exact ⟨k.pend hs, by rw [k.dmeas hs]; omega, by simp⟩

theorem ProgD.same {a : Actor} (h : Alive a) : ProgD a a false 0 := ProgD.of_keep h (KeepD.rfl' a)

/-- the loop's choice with the marker queued: the actor ends, or the measure falls below the loop value -/
theorem listen_drain (a : Actor) (h : a.armed = true) (hd : Item.drain ∈ a.msgQ) :
    Dead (listen a).1 ∨ (Alive (listen a).1 ∧ DrainPend (listen a).1 ∧
      dmeas (listen a).1 < 2 + a.supQ.length + dpos a.msgQ) := by
  unfold listen
  split
  · exact Or.inl (killedInLoop_dead _ (by simpa using h))
  · right
    simp only [enterPostStop]
    split
    · refine ⟨⟨by simp, by simp, by simpa [Actor.setStatus] using h⟩, Or.inr ⟨_, rfl⟩, ?_⟩
      simp [dmeas]; omega
    · split
      · rename_i e q hq
        refine ⟨⟨by simp, by simp, by simpa using h⟩, Or.inl (by simpa using hd), ?_⟩
        simp [dmeas, rank, hq]
      · rename_i hq
        split
        · rename_i m q hm
          have hd' : Item.drain ∈ q := by rw [hm] at hd; simpa using hd
          refine ⟨⟨by simp, by simp, by simpa using h⟩, Or.inl (by simpa using hd'), ?_⟩
          simp [dmeas, rank, hq, hm, dpos]
        · rename_i k q hm
          have hd' : Item.drain ∈ q := by rw [hm] at hd; simpa using hd
          refine ⟨⟨by simp, by simp, by simpa using h⟩, Or.inl (by simpa using hd'), ?_⟩
          simp [dmeas, rank, hq, hm, dpos]
        · refine ⟨⟨by simp, by simp, by simpa [Actor.setStatus] using h⟩, Or.inr ⟨_, rfl⟩, ?_⟩
          simp [dmeas]; omega
        · rename_i hm
          rw [hm] at hd; cases hd

theorem afterExit_drain (a : Actor) (r : Res) (h : a.armed = true) (hd : Item.drain ∈ a.msgQ) :
    Dead (afterExit a r).1 ∨ (Alive (afterExit a r).1 ∧ DrainPend (afterExit a r).1 ∧
      dmeas (afterExit a r).1 < 2 + a.supQ.length + dpos a.msgQ) := by
  unfold afterExit
  split
  · simp only [andThen_fst]
    exact listen_drain (a.setStatus .running) (by simpa [Actor.setStatus] using h) (by simpa [Actor.setStatus] using hd)
  · exact listen_drain a h hd
  · exact listen_drain a h hd
  · exact Or.inl (finish_dead _ _ h)
  · exact Or.inl (finish_dead _ _ h)
  · exact Or.inl (finish_dead _ _ h)
  · exact Or.inl (finish_dead _ _ (by simpa [Actor.setStatus] using h))

theorem runSeg_resD (a : Actor) (cb : Cb) (s : Seg) (k : Actor → Res → M) :
    (s.term = .tick ∧ KeepD a (runSeg a cb s k).1) ∨
    (s.term ≠ .tick ∧ ∃ a', KeepD a a' ∧ (runSeg a cb s k).1 = (k a' s.term.res).1) := by
  rw [runSeg_fst]
  by_cases ht : s.term = .tick
  · left
    simp only [ht, ite_true, true_and]
    exact ⟨(runFxs_keepD s.fx a).phase, (runFxs_keepD s.fx a).armed, (runFxs_keepD s.fx a).supQ,
      (runFxs_keepD s.fx a).msg⟩
  · right
    simp only [ht, ite_false]
    exact ⟨ht, _, runFxs_keepD s.fx a, rfl⟩

theorem dmeas_loop {a : Actor} (h : a.phase = .postStart ∨ a.phase = .idle ∨ a.phase = .inMsg ∨ a.phase = .inSup) :
    dmeas a = 2 + a.supQ.length + dpos a.msgQ := by
  rcases h with h | h | h | h <;> simp [dmeas, rank, h]

/-- a callback of the loop phases returned (state `a'` after the segment's side effects) -/
theorem afterExit_progD (a' : Actor) (r : Res) (ha' : a'.armed = true) {a : Actor} (k : KeepD a a')
    (hl : a.phase = .postStart ∨ a.phase = .idle ∨ a.phase = .inMsg ∨ a.phase = .inSup) :
    Dead (afterExit a' r).1 ∨ (Alive (afterExit a' r).1 ∧ (DrainPend a → DrainPend (afterExit a' r).1 ∧
      dmeas (afterExit a' r).1 < dmeas a)) := by
  by_cases hdp : Item.drain ∈ a.msgQ
  · obtain ⟨m1, m2⟩ := k.msg hdp
    rcases afterExit_drain a' r ha' m1 with hd | ⟨h1, h2, h3⟩
    · exact Or.inl hd
    · right
      refine ⟨h1, fun _ => ⟨h2, ?_⟩⟩
      rw [dmeas_loop hl]; rw [k.supQ, m2] at h3; omega
  · -- no marker and not in `post_stop`: nothing is claimed beyond alive-or-dead
    rcases afterExit_AD a' r ha' with hd | ⟨h1, h2, _, _⟩
    · exact Or.inl hd
    · right
      refine ⟨⟨?_, ?_, h1⟩, fun hd => ?_⟩
      · intro hc; rw [hc] at h2; simp [Phase.inLoop] at h2
      · intro hc; rw [hc] at h2; simp [Phase.inLoop] at h2
      · rcases hd with hd | ⟨r', hr'⟩
        · exact absurd hd hdp
        · rcases hl with hl | hl | hl | hl <;> rw [hl] at hr' <;> cases hr'

theorem pollOpen_progD (a : Actor) (cb : Cb) (h : Alive a)
    (hph : a.phase = .postStart ∨ a.phase = .inMsg ∨ a.phase = .inSup ∨ ∃ r, a.phase = .postStop r) :
    ProgD a (pollOpen a cb).1 (a.sigVal || segReturns a) 0 := by
  cases hs : a.sigVal with
  | true => exact Or.inl (pollOpen_kill a cb h.2.2 hs).1
  | false =>
    unfold pollOpen
    simp only [hs, Bool.false_eq_true, ite_false, Bool.false_or]
    cases hseg : a.seg with
    | none =>
      simp only [segReturns, hseg]
      exact ProgD.of_keep h ⟨rfl, rfl, rfl, fun x => ⟨x, rfl⟩⟩
    | some s =>
      simp only [segReturns, hseg]
      have key : ∀ b : Actor, KeepD a b → ProgD a (runSeg b cb s afterExit).1 (decide (s.term ≠ .tick)) 0 := by
        intro b kb
        rcases runSeg_resD b cb s afterExit with ⟨ht, k⟩ | ⟨ht, a', k, e⟩
        · simp only [ht, ne_eq, not_true_eq_false, decide_false]
          exact ProgD.of_keep h (kb.trans k)
        · rw [e]
          have k := kb.trans k
          have ha' : a'.armed = true := by rw [k.armed]; exact h.2.2
          have fin : ∀ hl : a.phase = .postStart ∨ a.phase = .idle ∨ a.phase = .inMsg ∨ a.phase = .inSup,
              ProgD a (afterExit a' s.term.res).1 (decide (s.term ≠ .tick)) 0 := by
            intro hl
            rcases afterExit_progD a' s.term.res ha' k hl with hd | ⟨hal, hf⟩
            · exact Or.inl hd
            · exact Or.inr ⟨hal, fun hdp => ⟨(hf hdp).1, by have := (hf hdp).2; omega, fun _ => (hf hdp).2⟩⟩
          rcases hph with hq | hq | hq | ⟨r, hq⟩
          · exact fin (Or.inl hq)
          · exact fin (Or.inr (Or.inr (Or.inl hq)))
          · exact fin (Or.inr (Or.inr (Or.inr hq)))
          · -- `post_stop` returns: the actor ends
            left
            have hp' : a'.phase = .postStop r := k.phase.trans hq
            unfold afterExit
            rw [hp']
            cases s.term.res <;> exact finish_dead _ _ ha'
      exact key _ ⟨rfl, rfl, rfl, fun x => ⟨x, rfl⟩⟩


theorem opPoll_progD (a : Actor) (h : Alive a) : ProgD a (opPoll a).1 (effPoll a .poll) 0 := by
  unfold opPoll
  split
  · rename_i hp
    simp only []
    split
    · exact Or.inl (killedOutsideLoop_dead _ (by simpa using h.2.2))
    · right
      refine ⟨⟨by simp, by simp, by simpa using h.2.2⟩, fun hs => ?_⟩
      rcases hs with hs | ⟨r, hr⟩
      · refine ⟨Or.inl (by simpa using hs), ?_, fun _ => ?_⟩ <;> simp [dmeas, rank, hp] <;> omega
      · simp [hp] at hr
  · rename_i hp
    by_cases hdp : Item.drain ∈ a.msgQ
    · rcases listen_drain { a with woken := false } (by simpa using h.2.2) (by simpa using hdp) with hd | ⟨h1, h2, h3⟩
      · exact Or.inl hd
      · right
        have e : dmeas a = 2 + a.supQ.length + dpos a.msgQ := dmeas_loop (Or.inr (Or.inl hp))
        have h3' : dmeas (listen { a with woken := false }).1 < 2 + a.supQ.length + dpos a.msgQ := h3
        exact ⟨h1, fun _ => ⟨h2, by omega, fun _ => by omega⟩⟩
    · rcases listen_AD { a with woken := false } (by simpa using h.2.2) with hd | ⟨h1, h2, _, _⟩
      · exact Or.inl hd
      · right
        refine ⟨⟨?_, ?_, h1⟩, fun hd => ?_⟩
        · intro hc; rw [hc] at h2; simp [Phase.inLoop] at h2
        · intro hc; rw [hc] at h2; simp [Phase.inLoop] at h2
        · rcases hd with hd | ⟨r', hr'⟩
          · exact absurd hd hdp
          · rw [hp] at hr'; cases hr'
  · rename_i hp
    have := pollOpen_progD a .postStart h (Or.inl hp)
    simpa [effPoll, hp] using this
  · rename_i hp
    have := pollOpen_progD a .handle h (Or.inr (Or.inl hp))
    simpa [effPoll, hp] using this
  · rename_i hp
    have := pollOpen_progD a .sup h (Or.inr (Or.inr (Or.inl hp)))
    simpa [effPoll, hp] using this
  · rename_i r hp
    have := pollOpen_progD a .postStop h (Or.inr (Or.inr (Or.inr ⟨r, hp⟩)))
    simpa [effPoll, hp] using this
  · rename_i h1 h2 h3 h4 h5 h6
    have : effPoll a .poll = false := by
      cases hp : a.phase <;> simp_all [effPoll]
    rw [this]
    exact ProgD.same h

theorem beginPre_q (b : Actor) (hb : b.armed = true) :
    Dead (beginPre b).1 ∨ ((beginPre b).1.phase = .pre ∧ (beginPre b).1.armed = true ∧
      (beginPre b).1.supQ = b.supQ ∧ (beginPre b).1.msgQ = b.msgQ) := by
  unfold beginPre
  split
  · simp only [handleSignal, andThen_fst]
    exact Or.inl (failSpawn_dead _ _ (by simpa using hb))
  · exact Or.inr ⟨rfl, hb, rfl, rfl⟩

theorem startInstant_q (a : Actor) (supOk : Bool) (ha : a.armed = true) :
    Dead (startInstant a supOk).1 ∨ ((startInstant a supOk).1.phase = .pre ∧ (startInstant a supOk).1.armed = true ∧
      (startInstant a supOk).1.supQ = a.supQ ∧ (startInstant a supOk).1.msgQ = a.msgQ) := by
  unfold startInstant
  split
  · exact Or.inl (failSpawn_dead _ _ ha)
  · simp only []
    split
    · split
      · split
        · exact Or.inl (failSpawn_dead _ _ (by simpa using ha))
        · simp only [andThen_fst, doLink_fst]
          exact beginPre_q _ (by simpa using ha)
      · exact beginPre_q _ (by simpa using ha)
    · exact beginPre_q _ (by simpa using ha)

theorem afterPre_q (a : Actor) (supOk : Bool) (r : Res) (h : a.armed = true) :
    Dead (afterPre a supOk r).1 ∨ ((afterPre a supOk r).1.phase = .ready ∧ (afterPre a supOk r).1.armed = true ∧
      (afterPre a supOk r).1.supQ = a.supQ ∧ (afterPre a supOk r).1.msgQ = a.msgQ) := by
  unfold afterPre
  split
  · exact Or.inl (failSpawn_dead _ _ h)
  · exact Or.inl (failSpawn_dead _ _ h)
  · split
    · split
      · exact Or.inl (failSpawn_dead _ _ h)
      · right; simp [h]
    · right; simp [h]

theorem opPollSpawn_progD (a : Actor) (supOk : Bool) (h : Alive a) :
    ProgD a (opPollSpawn a supOk).1 (effPoll a (.pollSpawn supOk)) 0 := by
  unfold opPollSpawn
  split
  · rename_i hp
    rcases startInstant_q a supOk h.2.2 with hd | ⟨h1, h2, h3, h4⟩
    · exact Or.inl hd
    · right
      refine ⟨⟨by simp [h1], by simp [h1], h2⟩, fun hsp => ?_⟩
      have e1 : dmeas (startInstant a supOk).1 = 4 + a.supQ.length + dpos a.msgQ := by simp [dmeas, rank, h1, h3, h4]
      have e2 : dmeas a = 5 + a.supQ.length + dpos a.msgQ := by simp [dmeas, rank, hp]
      refine ⟨?_, by omega, fun _ => by omega⟩
      rcases hsp with hsp | ⟨r, hr⟩
      · exact Or.inl (by rw [h4]; exact hsp)
      · simp [hp] at hr
  · rename_i hp
    split
    · simp only [say, handleSignal, andThen_fst]
      exact Or.inl (failSpawn_dead _ _ (by simpa using h.2.2))
    · rename_i hs
      have hs : a.sigVal = false := by simpa using hs
      cases hseg : a.seg with
      | none =>
        have : effPoll a (.pollSpawn supOk) = false := by simp [effPoll, hp, hs, segReturns, hseg]
        rw [this]; exact ProgD.same h
      | some s =>
        simp only []
        have key : ∀ b : Actor, KeepD a b →
            ProgD a (runSeg b .preStart s (fun a r => afterPre a supOk r)).1 (decide (s.term ≠ .tick)) 0 := by
          intro b kb
          rcases runSeg_resD b .preStart s (fun a r => afterPre a supOk r) with ⟨ht, k⟩ | ⟨ht, a', k, e⟩
          · simp only [ht, ne_eq, not_true_eq_false, decide_false]
            exact ProgD.of_keep h (kb.trans k)
          · rw [e]
            have k := kb.trans k
            have ha' : a'.armed = true := by rw [k.armed]; exact h.2.2
            rcases afterPre_q a' supOk s.term.res ha' with hd | ⟨h1, h2, h3, h4⟩
            · exact Or.inl hd
            · right
              refine ⟨⟨by simp [h1], by simp [h1], h2⟩, fun hsp => ?_⟩
              rcases hsp with hsp | ⟨r, hr⟩
              · obtain ⟨m1, m2⟩ := k.msg hsp
                have e1 : dmeas (afterPre a' supOk s.term.res).1 = 3 + a.supQ.length + dpos a.msgQ := by
                  simp [dmeas, rank, h1, h3, h4, k.supQ, m2]
                have e2 : dmeas a = 4 + a.supQ.length + dpos a.msgQ := by simp [dmeas, rank, hp]
                exact ⟨Or.inl (by rw [h4]; exact m1), by omega, fun _ => by omega⟩
              · simp [hp] at hr
        have : effPoll a (.pollSpawn supOk) = decide (s.term ≠ .tick) := by
          simp [effPoll, hp, hs, segReturns, hseg]
        rw [this]
        exact key _ ⟨rfl, rfl, rfl, fun x => ⟨x, rfl⟩⟩
  · rename_i h1 h2
    have : effPoll a (.pollSpawn supOk) = false := by
      cases hp : a.phase <;> simp_all [effPoll]
    rw [this]
    exact ProgD.same h

/-- what the environment adds to the measure: one per supervision event handed to the port -/
def supArr : AOp → Nat
  | .supArrive _ => 1
  | _ => 0

theorem envOp_keepD (a : Actor) (op : AOp) :
    (a.envOp op).1.phase = a.phase ∧ (a.envOp op).1.armed = a.armed ∧
    (a.envOp op).1.supQ.length ≤ a.supQ.length + supArr op ∧
    (Item.drain ∈ a.msgQ → Item.drain ∈ (a.envOp op).1.msgQ ∧ dpos (a.envOp op).1.msgQ = dpos a.msgQ) := by
  cases op <;> simp only [Actor.envOp, apiSend, apiStop, apiKill, apiDrain, apiCall, opSupArrive, opTreeTaken,
    opLink, opUnlink, doLink, supArr]
  all_goals (repeat' split)
  all_goals simp (config := { contextual := true }) [dpos_append]

theorem step_progD (a : Actor) (op : AOp) (h : Alive a) : ProgD a (a.stepCore op).1 (effPoll a op) (supArr op) := by
  have lift : ∀ {x : Actor} {b : Bool}, ProgD a x b 0 → ProgD a x b (supArr op) := by
    intro x b hp
    rcases hp with hd | ⟨hal, hf⟩
    · exact Or.inl hd
    · exact Or.inr ⟨hal, fun hdp => ⟨(hf hdp).1, by have := (hf hdp).2.1; omega, (hf hdp).2.2⟩⟩
  cases op with
  | spawn sup name nameFree isLocal supOk =>
    simp only [Actor.stepCore, opSpawn]
    split
    · rename_i hp; exact absurd hp h.1
    · exact lift (ProgD.same h)
  | spawnInstant sup name nameFree isLocal =>
    simp only [Actor.stepCore, opSpawnInstant]
    split
    · rename_i hp; exact absurd hp h.1
    · exact lift (ProgD.same h)
  | pollSpawn supOk => exact lift (opPollSpawn_progD a supOk h)
  | dropSpawn =>
    simp only [Actor.stepCore, effPoll]
    by_cases hp : a.phase = .cell ∨ a.phase = .pre
    · exact Or.inl (opDropSpawn_dead a h.2.2 hp)
    · have : (opDropSpawn a).1 = a := by
        unfold opDropSpawn
        split <;> simp_all
      rw [this]; exact lift (ProgD.same h)
  | poll =>
    simp only [Actor.stepCore, pollMark_fst]
    exact lift (opPoll_progD a h)
  | abort =>
    simp only [Actor.stepCore, effPoll]
    cases ht : a.phase.isTask with
    | true => exact Or.inl (opAbort_dead a h.2.2 ht)
    | false =>
      have : (opAbort a).1 = a := by simp [opAbort, ht]
      rw [this]; exact lift (ProgD.same h)
  | resume s =>
    simp only [Actor.stepCore, effPoll, opResume]
    split
    · exact lift (ProgD.same h)
    · split
      · exact lift (ProgD.same h)
      · exact lift (ProgD.of_keep h ⟨rfl, rfl, rfl, fun x => ⟨x, rfl⟩⟩)
  | _ =>
    simp only [Actor.stepCore, effPoll, h.1, ite_false]
    obtain ⟨h1, h2, h3, h4⟩ := envOp_keepD a _
    right
    refine ⟨⟨by rw [h1]; exact h.1, by rw [h1]; exact h.2.1, by rw [h2]; exact h.2.2⟩, fun hdp => ?_⟩
    rcases hdp with hdp | ⟨r, hr⟩
    · obtain ⟨m1, m2⟩ := h4 hdp
      refine ⟨Or.inl m1, ?_, by simp⟩
      cases hp : a.phase <;> simp only [dmeas, rank, h1, hp, m2] <;> omega
    · exact ⟨Or.inr ⟨r, by rw [h1]; exact hr⟩, by simp [dmeas, h1, hr], by simp⟩

/-- supervision events the environment hands to the actor's port along a run -/
def supCount : List AOp → Nat
  | [] => 0
  | op :: ops => supArr op + supCount ops

theorem drain_run (ops : List AOp) (a : Actor) (h : Alive a) (hs : DrainPend a) :
    Dead (a.run ops).1 ∨
    (Alive (a.run ops).1 ∧ DrainPend (a.run ops).1 ∧
      dmeas (a.run ops).1 + effCount a ops ≤ dmeas a + supCount ops) := by
  induction ops generalizing a with
  | nil => exact Or.inr ⟨h, hs, by simp [effCount, supCount, Actor.run]⟩
  | cons op ops ih =>
    rcases step_progD a op h with hd | ⟨hal, hp⟩
    · exact Or.inl (dead_run ops _ hd).1
    · obtain ⟨p1, p2, p3⟩ := hp hs
      rcases ih (a.step op).1 hal p1 with hd | ⟨i1, i2, i3⟩
      · exact Or.inl hd
      · refine Or.inr ⟨i1, i2, ?_⟩
        have e0 : (a.step op).1 = (a.stepCore op).1 := rfl
        simp only [effCount, supCount, Actor.run]
        rw [e0] at i3 ⊢
        cases he : effPoll a op with
        | true => have := p3 he; simp only [ite_true]; omega
        | false => simp only [Bool.false_eq_true, ite_false]; omega

end Life.Liveness
