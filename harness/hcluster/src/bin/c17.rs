//! C17 correspondence harness.
//!
//! * E-PURE: the two handshake state machines of `ractor_cluster/src/node/auth.rs`, driven
//!   through `ractor_cluster::node::auth::verif_hooks` over the complete table
//!   (state kind × message kind × digest equal? / status flag), plus random cases.
//! * E-LTS end-to-end: a REAL `NodeServer`; the harness is the adversarial peer on in-memory
//!   duplex streams injected through `ConnectionOpenedExternal` (server-side sessions) and
//!   `client_connect_external` (client-side sessions). It writes arbitrary frame sequences and,
//!   after every frame, observes through public APIs only: frames sent back, messages handled
//!   by probe actors, proxies (children of the session), pg membership, `GetSessions`, liveness.
//!
//! usage: c17 --seed S --cases N --out DIR [--replay-ops f1,f2 --only-replay 1]
//! Line formats: see lean/Driver/C17.lean.

use std::collections::BTreeMap;
use std::sync::{Arc, Mutex};
use std::time::Duration;

use hutil::{Args, Log, Rng, Stats};
use prost::Message as _;
use ractor::{Actor, ActorCell, ActorProcessingErr, ActorRef, RpcReplyPort};
use ractor_cluster::node::auth::verif_hooks::{digest, ClientFsm, ServerFsm};
use ractor_cluster::verif::proto;
use ractor_cluster::{BoxRead, BoxWrite, ClusterBidiStream, NodeServer, NodeServerMessage, RactorClusterMessage, RactorMessage};
use tokio::io::{AsyncReadExt, AsyncWriteExt};

/// The node's real cookie and the (different) cookie of an intruder, per case. The intruder
/// runs the same software: its digests come from the code under test (`digest`) applied to ITS
/// cookie; honest peers and the oracle's table use the independent reference. The fixed FSM /
/// E-PURE parts use the defaults.
static COOKIES: Mutex<(String, String)> = Mutex::new((String::new(), String::new()));

fn set_cookies(real: &str, wrong: &str) {
    *COOKIES.lock().unwrap() = (real.to_string(), wrong.to_string());
}
fn cookie() -> String {
    let c = COOKIES.lock().unwrap();
    if c.0.is_empty() { "cookie".to_string() } else { c.0.clone() }
}
fn wrong_cookie() -> String {
    let c = COOKIES.lock().unwrap();
    if c.1.is_empty() { "other-cookie".to_string() } else { c.1.clone() }
}

fn hex(b: &[u8]) -> String {
    if b.is_empty() {
        return "-".into();
    }
    b.iter().map(|x| format!("{x:02x}")).collect()
}
fn unhex(s: &str) -> Option<Vec<u8>> {
    if s == "-" {
        return Some(vec![]);
    }
    if s.len() % 2 != 0 {
        return None;
    }
    (0..s.len() / 2).map(|i| u8::from_str_radix(s.get(2 * i..2 * i + 2)?, 16).ok()).collect()
}
fn word(s: &str) -> String {
    if s.is_empty() {
        "-".into()
    } else {
        s.to_string()
    }
}
fn unword(s: &str) -> String {
    if s == "-" {
        String::new()
    } else {
        s.to_string()
    }
}
fn show_pids(v: &[u64]) -> String {
    hutil::show_u64s(v)
}
fn parse_pids(s: &str) -> Option<Vec<u64>> {
    if s == "-" {
        Some(vec![])
    } else {
        s.split(',').map(|x| x.parse().ok()).collect()
    }
}

/// The digest table `h=` for the challenges mentioned (real cookie), computed with the REFERENCE
/// implementation — what an honest peer computes —, never with the code under test.
fn htable(cs: &[u32]) -> String {
    let mut cs: Vec<u32> = cs.to_vec();
    cs.sort_unstable();
    cs.dedup();
    if cs.is_empty() {
        return "-".into();
    }
    cs.iter().map(|c| format!("{c}:{}", hex(&reference_digest(&cookie(), *c)))).collect::<Vec<_>>().join(",")
}

// ------------------------------------------------------------------ auth messages (descriptor <-> proto)

use proto::auth::authentication_message::Msg as A;

fn amsg(m: Option<A>) -> proto::auth::AuthenticationMessage {
    proto::auth::AuthenticationMessage { msg: m }
}

/// descriptor -> auth message (`name:n:c:id`, `sstatus:n`, `cstatus:b`, `schal:n:c:ch`, `cchal:ch:hex`, `sack:hex`, `empty`)
fn parse_amsg(d: &str) -> Option<proto::auth::AuthenticationMessage> {
    let p: Vec<&str> = d.split(':').collect();
    Some(match p.as_slice() {
        ["name", n, c, id] => amsg(Some(A::Name(proto::auth::NameMessage {
            name: unword(n),
            flags: Some(proto::auth::NodeFlags { version: 1 }),
            connection_string: unword(c),
            connection_id: id.parse().ok()?,
        }))),
        ["sstatus", n] => amsg(Some(A::ServerStatus(proto::auth::ServerStatus { status: n.parse().ok()? }))),
        ["cstatus", b] => amsg(Some(A::ClientStatus(proto::auth::ClientStatus { status: *b == "1" }))),
        ["schal", n, c, ch] => amsg(Some(A::ServerChallenge(proto::auth::Challenge {
            name: unword(n),
            flags: Some(proto::auth::NodeFlags { version: 1 }),
            challenge: ch.parse().ok()?,
            connection_string: unword(c),
        }))),
        ["cchal", ch, h] => amsg(Some(A::ClientChallenge(proto::auth::ChallengeReply { challenge: ch.parse().ok()?, digest: unhex(h)? }))),
        ["sack", h] => amsg(Some(A::ServerAck(proto::auth::ChallengeAck { digest: unhex(h)? }))),
        ["empty"] | ["aempty"] => amsg(None),
        _ => return None,
    })
}

/// challenges mentioned by a descriptor
fn challenges_of(d: &str) -> Vec<u32> {
    let p: Vec<&str> = d.split(':').collect();
    match p.as_slice() {
        ["schal", _, _, ch] | ["schal", _, ch] | ["cchal", ch, _] | ["waitingReply", ch, _] => ch.parse().ok().into_iter().collect(),
        ["waitingAck", _, _, sc, _, ours, _] => sc.parse().ok().into_iter().chain(ours.parse().ok()).collect(),
        _ => vec![],
    }
}

// ------------------------------------------------------------------ E-PURE: the two FSMs

fn d32(h: &str) -> [u8; 32] {
    let v = unhex(h).unwrap_or_default();
    let mut a = [0u8; 32];
    for (i, b) in v.iter().take(32).enumerate() {
        a[i] = *b;
    }
    a
}

fn mk_server(d: &str) -> Option<ServerFsm> {
    let p: Vec<&str> = d.split(':').collect();
    Some(match p.as_slice() {
        ["waitingName"] => ServerFsm::init(),
        ["havePeerName", n, c, id] => ServerFsm::have_peer_name(proto::auth::NameMessage {
            name: unword(n),
            flags: None,
            connection_string: unword(c),
            connection_id: id.parse().ok()?,
        }),
        ["waitingClientStatus"] => ServerFsm::waiting_on_client_status(),
        ["waitingReply", c, h] => ServerFsm::waiting_reply(c.parse().ok()?, d32(h)),
        ["ok", h] => ServerFsm::ok(d32(h)),
        ["close"] => ServerFsm::close(),
        _ => return None,
    })
}

fn mk_client(d: &str) -> Option<ClientFsm> {
    let p: Vec<&str> = d.split(':').collect();
    Some(match p.as_slice() {
        ["waitingStatus"] => ClientFsm::init(),
        ["waitingChallenge", n] => ClientFsm::waiting_challenge(n.parse().ok()?),
        ["waitingAck", n, cs, sc, reply, ours, exp] => ClientFsm::waiting_ack(
            proto::auth::Challenge { name: unword(n), flags: None, challenge: sc.parse().ok()?, connection_string: unword(cs) },
            d32(reply),
            ours.parse().ok()?,
            d32(exp),
        ),
        ["ok"] => ClientFsm::ok(),
        ["close"] => ClientFsm::close(),
        _ => return None,
    })
}

fn colonize(s: String) -> String {
    s.replace(' ', ":")
}

fn fresh_of(next: &str) -> String {
    let p: Vec<&str> = next.split(':').collect();
    match p.as_slice() {
        ["waitingReply", c, _] => c.to_string(),
        ["waitingAck", _, _, _, _, ours, _] => ours.to_string(),
        _ => "-".into(),
    }
}

fn do_srv(log: &mut Log, st: &mut Stats, state: &str, msg: &str) {
    let (Some(s), Some(m)) = (mk_server(state), parse_amsg(msg)) else {
        log.rec(format!("srv {state} {msg}"), "unparsable-in-replay");
        return;
    };
    let next = colonize(s.next(m, &cookie()).describe());
    let mut cs = challenges_of(state);
    cs.extend(challenges_of(msg));
    cs.extend(challenges_of(&next));
    st.bump("fsm_srv");
    st.bump(&format!("fsm_srv_to_{}", next.split(':').next().unwrap()));
    log.rec(format!("srv {state} {msg} fresh={} h={}", fresh_of(&next), htable(&cs)), next);
}

fn do_srvstart(log: &mut Log, st: &mut Stats, state: &str) {
    let Some(s) = mk_server(state) else {
        log.rec(format!("srvstart {state}"), "unparsable-in-replay");
        return;
    };
    let next = colonize(s.start_challenge(&cookie()).describe());
    let mut cs = challenges_of(state);
    cs.extend(challenges_of(&next));
    st.bump("fsm_srvstart");
    log.rec(format!("srvstart {state} fresh={} h={}", fresh_of(&next), htable(&cs)), next);
}

fn do_cli(log: &mut Log, st: &mut Stats, state: &str, msg: &str) {
    let (Some(s), Some(m)) = (mk_client(state), parse_amsg(msg)) else {
        log.rec(format!("cli {state} {msg}"), "unparsable-in-replay");
        return;
    };
    let next = colonize(s.next(m, &cookie()).describe());
    let mut cs = challenges_of(state);
    cs.extend(challenges_of(msg));
    cs.extend(challenges_of(&next));
    st.bump("fsm_cli");
    st.bump(&format!("fsm_cli_to_{}", next.split(':').next().unwrap()));
    log.rec(format!("cli {state} {msg} fresh={} h={}", fresh_of(&next), htable(&cs)), next);
}

fn fsm_part(log: &mut Log, st: &mut Stats, rng: &mut Rng, cases: u64) {
    let good = |c: u32| hex(&reference_digest(&cookie(), c));
    let bad = |c: u32| hex(&digest(&wrong_cookie(), c));
    // digests a peer may present for challenge c: right, wrong cookie, right digest of another challenge, truncated, empty, extended
    let digests = |c: u32| -> Vec<String> {
        let g = good(c);
        vec![g.clone(), bad(c), good(c.wrapping_add(1)), g[..62].to_string(), "-".into(), format!("{g}00")]
    };
    let c = 4242u32;
    let mut sstates = vec![
        "waitingName".to_string(),
        "havePeerName:p@h:h:9:7".replace(":h:9:7", ":h9:7"),
        "waitingClientStatus".into(),
        format!("waitingReply:{c}:{}", good(c)),
        format!("waitingReply:{c}:{}", bad(c)),
        format!("ok:{}", good(5)),
        "close".into(),
    ];
    sstates[1] = "havePeerName:p@h:h9:7".into();
    let mut msgs: Vec<String> = vec!["name:p@h:h9:7".into(), "name:-:-:0".into(), "empty".into(), "cstatus:0".into(), "cstatus:1".into()];
    for s in 0..=6 {
        msgs.push(format!("sstatus:{s}"));
    }
    msgs.push(format!("schal:srv@h:h1:{c}"));
    for d in digests(c) {
        msgs.push(format!("cchal:77:{d}"));
        msgs.push(format!("sack:{d}"));
    }
    for s in &sstates {
        do_srvstart(log, st, s);
        for m in &msgs {
            do_srv(log, st, s, m);
        }
    }
    let cstates = vec![
        "waitingStatus".to_string(),
        "waitingChallenge:0".into(),
        "waitingChallenge:2".into(),
        format!("waitingAck:srv@h:h1:9:{}:{c}:{}", good(9), good(c)),
        format!("waitingAck:srv@h:h1:9:{}:{c}:{}", good(9), bad(c)),
        "ok".into(),
        "close".into(),
    ];
    for s in &cstates {
        for m in &msgs {
            do_cli(log, st, s, m);
        }
    }
    st.bump("fsm_exhaustive_done");
    // random: other challenges / digests
    for _ in 0..cases {
        let c = rng.next_u64() as u32;
        let c2 = rng.next_u64() as u32;
        let dg = rng.pick(&digests(c)).clone();
        let ss = [format!("waitingReply:{c}:{}", good(c)), format!("waitingReply:{c}:{}", good(c2)), "waitingClientStatus".into(), "waitingName".into()];
        let ms = [format!("cchal:{c2}:{dg}"), format!("sack:{dg}"), "cstatus:1".into(), format!("schal:x:y:{c2}")];
        let (a, b) = (rng.pick(&ss[..]).clone(), rng.pick(&ms[..]).clone());
        do_srv(log, st, &a, &b);
        let cs = [format!("waitingAck:s:c:{c2}:{}:{c}:{}", good(c2), good(c)), "waitingChallenge:1".into(), "waitingStatus".into()];
        let (a, b) = (rng.pick(&cs[..]).clone(), rng.pick(&ms[..]).clone());
        do_cli(log, st, &a, &b);
    }
}

// ------------------------------------------------------------------ E-PURE: challenge_digest uses all of its input

/// Reference: SHA-256 over the 4 big-endian challenge bytes followed by the cookie's bytes
/// (the layout documented in `hash.rs`), computed with the sha2 crate directly.
fn reference_digest(cookie: &str, challenge: u32) -> Vec<u8> {
    use sha2::Digest as _;
    let mut h = sha2::Sha256::new();
    h.update(challenge.to_be_bytes());
    h.update(cookie.as_bytes());
    h.finalize().to_vec()
}

/// `digest c1=<hex> c2=<hex> ch1= ch2= ref=<hex>,<hex>` -> `<hex>,<hex>` (the real `challenge_digest`)
fn do_digest(log: &mut Log, st: &mut Stats, c1: &str, c2: &str, ch1: u32, ch2: u32) {
    let d1 = digest(c1, ch1);
    let d2 = digest(c2, ch2);
    st.bump("digest_pair");
    if c1 == c2 && ch1 == ch2 {
        st.bump("digest_pair_equal_inputs");
    }
    log.rec(
        format!(
            "digest c1={} c2={} ch1={ch1} ch2={ch2} ref={},{}",
            hex(c1.as_bytes()),
            hex(c2.as_bytes()),
            hex(&reference_digest(c1, ch1)),
            hex(&reference_digest(c2, ch2))
        ),
        format!("{},{}", hex(&d1), hex(&d2)),
    );
}

fn ascii(rng: &mut Rng, n: usize) -> String {
    (0..n).map(|_| (b'a' + rng.below(26) as u8) as char).collect()
}

fn digest_part(log: &mut Log, st: &mut Stats, rng: &mut Rng, cases: u64) {
    do_digest(log, st, "cookie", "cookie", 42, 42);
    do_digest(log, st, "", "", 0, 0);
    do_digest(log, st, "", "a", 0, 0);
    // cookies of every length 0..=200: pairs that differ only in the last byte, only in length
    // (one trailing byte), only in one early byte, only at a position around the SHA block size
    for n in 0..=200usize {
        let base = ascii(rng, n);
        let ch = rng.next_u64() as u32;
        do_digest(log, st, &base, &base, ch, ch);
        do_digest(log, st, &base, &format!("{base}x"), ch, ch);
        if n > 0 {
            let flip = |i: usize| {
                let mut b = base.clone().into_bytes();
                b[i] = if b[i] == b'z' { b'a' } else { b[i] + 1 };
                String::from_utf8(b).unwrap()
            };
            let last = flip(n - 1);
            do_digest(log, st, &base, &last, ch, ch);
            let first = flip(0);
            do_digest(log, st, &base, &first, ch, ch);
            for pos in [55usize, 56, 59, 60, 61, 63, 64, 65, 119, 127, 128] {
                if pos < n {
                    let other = flip(pos);
                    do_digest(log, st, &base, &other, ch, ch);
                }
            }
            // same prefix of 60 / 61 / 63 / 64 bytes, everything after it different
            for p in [60usize, 61, 63, 64] {
                if p < n {
                    let other = format!("{}{}", &base[..p], "#".repeat(n - p));
                    do_digest(log, st, &base, &other, ch, ch);
                }
            }
        }
        // challenges differing in each of their four bytes
        for byte in 0..4 {
            do_digest(log, st, &base, &base, ch, ch ^ (1 << (8 * byte + rng.below(8) as u32)));
        }
    }
    for _ in 0..cases {
        let (a, b) = (rng.below(201) as usize, rng.below(201) as usize);
        let (c1, c2) = (ascii(rng, a), ascii(rng, b));
        do_digest(log, st, &c1, &c2, rng.next_u64() as u32, rng.next_u64() as u32);
    }
}

// ------------------------------------------------------------------ probes

type Shared = Arc<Mutex<Vec<String>>>;

#[derive(RactorClusterMessage)]
enum ProbeMsg {
    Hit(u32),
    #[rpc]
    Ask(RpcReplyPort<u32>),
}

struct Probe(Shared);
impl Actor for Probe {
    type Msg = ProbeMsg;
    type State = ();
    type Arguments = ();
    async fn pre_start(&self, _: ActorRef<ProbeMsg>, _: ()) -> Result<(), ActorProcessingErr> {
        Ok(())
    }
    async fn handle(&self, me: ActorRef<ProbeMsg>, m: ProbeMsg, _: &mut ()) -> Result<(), ActorProcessingErr> {
        let pid = me.get_id().pid();
        match m {
            ProbeMsg::Hit(_) => self.0.lock().unwrap().push(format!("{pid}:cast")),
            ProbeMsg::Ask(p) => {
                self.0.lock().unwrap().push(format!("{pid}:call"));
                let _ = p.send(7);
            }
        }
        Ok(())
    }
}

#[derive(RactorMessage)]
enum PlainMsg {
    #[allow(dead_code)]
    Hit,
}
struct Plain(Shared);
impl Actor for Plain {
    type Msg = PlainMsg;
    type State = ();
    type Arguments = ();
    async fn pre_start(&self, _: ActorRef<PlainMsg>, _: ()) -> Result<(), ActorProcessingErr> {
        Ok(())
    }
    async fn handle(&self, me: ActorRef<PlainMsg>, _: PlainMsg, _: &mut ()) -> Result<(), ActorProcessingErr> {
        self.0.lock().unwrap().push(format!("{}:plain", me.get_id().pid()));
        Ok(())
    }
}

// ------------------------------------------------------------------ the peer's end of a connection

#[path = "../tcpq.rs"]
mod tcpq;

/// `--tcp 1`: every connection of the end-to-end engines is a REAL loopback TCP connection: the
/// adversary dials the node's real `Listener` (server-side sessions) or the node dials the
/// adversary's listener through the real `client_connect` (client-side sessions).
static TCP: std::sync::atomic::AtomicBool = std::sync::atomic::AtomicBool::new(false);
fn tcp_mode() -> bool {
    TCP.load(std::sync::atomic::Ordering::Relaxed)
}

struct Duplex {
    stream: tokio::io::DuplexStream,
    label: String,
}
impl ClusterBidiStream for Duplex {
    fn split(self: Box<Self>) -> (BoxRead, BoxWrite) {
        let (r, w) = tokio::io::split(self.stream);
        (Box::new(r), Box::new(w))
    }
    fn peer_label(&self) -> Option<String> {
        Some(self.label.clone())
    }
    fn local_label(&self) -> Option<String> {
        Some(self.label.clone())
    }
}

struct Conn {
    r: Box<dyn tokio::io::AsyncRead + Unpin + Send>,
    w: Option<Box<dyn tokio::io::AsyncWrite + Unpin + Send>>,
    /// TCP mode: our socket (for an abortive close), the task copying what arrives into `r`, and the
    /// PRNG choosing write boundaries / pauses / the way the connection is dropped
    tcp_fd: Option<std::os::fd::RawFd>,
    /// TCP mode: (our port, the node's port) of this connection
    tcp_ports: Option<(u16, u16)>,
    /// TCP mode: the write half of our socket (kept concrete: an abortive close must not be preceded
    /// by the FIN that dropping an `OwnedWriteHalf` sends - `forget` it instead)
    tw: Option<tokio::net::tcp::OwnedWriteHalf>,
    pump: Option<tokio::task::JoinHandle<()>>,
    frag: Option<Rng>,
    buf: Vec<u8>,
    cell: Option<ActorCell>,
    is_server: bool,
    /// every challenge seen on this connection (either direction), for the `h=` table
    chals: Vec<u32>,
    /// the last challenge the NODE issued on this connection (its `ServerChallenge`, or the
    /// challenge inside its `ChallengeReply`) and the last digest the NODE sent on it (inside its
    /// `ChallengeReply` / `ChallengeAck`): all a cookie-less peer needs for a relay
    last_issued: Option<u32>,
    last_digest: Option<String>,
}

/// Bumped at every quiescence point; a watchdog thread aborts the run if the real code wedges
/// the (single-threaded) runtime, e.g. by a busy loop.
static PROGRESS: std::sync::atomic::AtomicU64 = std::sync::atomic::AtomicU64::new(0);

fn start_watchdog(bin: &'static str) {
    std::thread::spawn(move || {
        let mut last = 0;
        let mut idle = 0;
        loop {
            std::thread::sleep(Duration::from_secs(1));
            let now = PROGRESS.load(std::sync::atomic::Ordering::Relaxed);
            if now == last {
                idle += 1;
                if idle >= 20 {
                    eprintln!("{bin}: no progress for 20 s - the code under test wedged the runtime (busy loop or deadlock)");
                    std::process::exit(3);
                }
            } else {
                idle = 0;
                last = now;
            }
        }
    });
}

async fn quiesce() {
    PROGRESS.fetch_add(1, std::sync::atomic::Ordering::Relaxed);
    if tcp_mode() {
        // event-driven: runtime idle AND nothing unread / unsent / in flight on any socket of the process
        tcpq::settle().await;
        return;
    }
    tokio::time::sleep(Duration::from_millis(1)).await;
}

impl Conn {
    async fn write(&mut self, bytes: &[u8]) {
        if let Some(rng) = self.frag.as_mut() {
            // real socket: PRNG-chosen write boundaries (every piece is its own `write` = its own
            // segment with TCP_NODELAY) and PRNG pauses in between (none / a few yields / until the
            // node has consumed the piece), so that the node's reader really sees partial reads
            let mut cuts: Vec<usize> = Vec::new();
            if bytes.len() > 1 {
                for _ in 0..*rng.pick(&[0u64, 0, 1, 2, 3, 7]) {
                    cuts.push(rng.range(1, bytes.len() as u64 - 1) as usize);
                }
            }
            cuts.push(bytes.len());
            cuts.sort_unstable();
            cuts.dedup();
            let mut at = 0;
            for c in cuts {
                let pause = rng.below(3);
                let Some(w) = self.tw.as_mut() else { return };
                if w.write_all(&bytes[at..c]).await.is_err() || w.flush().await.is_err() {
                    self.tw = None;
                    return;
                }
                at = c;
                if at < bytes.len() {
                    match pause {
                        0 => {}
                        1 => tokio::task::yield_now().await,
                        _ => tcpq::settle().await,
                    }
                }
            }
            return;
        }
        if let Some(w) = self.w.as_mut() {
            if w.write_all(bytes).await.is_err() || w.flush().await.is_err() {
                self.w = None;
            }
        }
    }

    /// TCP mode: end the connection the way the PRNG says - half-close (FIN, our read side stays
    /// open), full close (FIN), or abortive close (RST: SO_LINGER 0). Returns the way chosen.
    async fn tcp_drop(&mut self) -> &'static str {
        let how = self.frag.as_mut().map(|r| r.below(3)).unwrap_or(0);
        match how {
            0 => {
                if let Some(mut wh) = self.tw.take() {
                    let _ = wh.shutdown().await;
                }
                "halfclose"
            }
            1 => {
                self.tw = None;
                if let Some(p) = self.pump.take() {
                    p.abort();
                }
                "close"
            }
            _ => {
                if let Some(fd) = self.tcp_fd {
                    tcpq::set_reset_on_close(fd);
                }
                // no FIN first: the write half is forgotten, the socket closes (RST) when the pump's
                // read half goes
                if let Some(wh) = self.tw.take() {
                    wh.forget();
                }
                if let Some(p) = self.pump.take() {
                    p.abort();
                }
                "reset"
            }
        }
    }

    /// Everything the node has written so far, decoded frame by frame.
    async fn drain(&mut self, this_conn: &mut Option<String>) -> Vec<String> {
        let mut tmp = [0u8; 8192];
        loop {
            match tokio::time::timeout(Duration::ZERO, self.r.read(&mut tmp)).await {
                Ok(Ok(0)) | Ok(Err(_)) | Err(_) => break,
                Ok(Ok(n)) => self.buf.extend_from_slice(&tmp[..n]),
            }
        }
        let mut out = Vec::new();
        loop {
            if self.buf.len() < 8 {
                break;
            }
            let len = u64::from_be_bytes(self.buf[..8].try_into().unwrap()) as usize;
            if self.buf.len() < 8 + len {
                break;
            }
            let payload: Vec<u8> = self.buf[8..8 + len].to_vec();
            self.buf.drain(..8 + len);
            match proto::NetworkMessage::decode(&payload[..]) {
                Ok(m) => out.push(show_frame(&m, this_conn)),
                Err(_) => out.push("undecodable".into()),
            }
        }
        out
    }
}

/// Frames the node sends, as `lean/Driver/C17.lean: showFrame` prints them.
fn show_frame(m: &proto::NetworkMessage, this_conn: &mut Option<String>) -> String {
    use proto::control::control_message::Msg as C;
    use proto::meta::network_message::Message as M;
    use proto::node::node_message::Msg as N;
    let pids = |a: &Vec<proto::control::Actor>| show_pids(&a.iter().map(|x| x.pid).collect::<Vec<_>>());
    match &m.message {
        None => "netempty".into(),
        Some(M::Auth(a)) => match &a.msg {
            None => "aempty".into(),
            Some(A::Name(n)) => {
                *this_conn = Some(n.connection_string.clone());
                format!("name:{}:{}", word(&n.name), n.connection_id)
            }
            Some(A::ServerStatus(s)) => format!("sstatus:{}", s.status),
            Some(A::ClientStatus(s)) => format!("cstatus:{}", s.status as u8),
            Some(A::ServerChallenge(c)) => {
                *this_conn = Some(c.connection_string.clone());
                format!("schal:{}:{}", word(&c.name), c.challenge)
            }
            Some(A::ClientChallenge(c)) => format!("cchal:{}:{}", c.challenge, hex(&c.digest)),
            Some(A::ServerAck(a)) => format!("sack:{}", hex(&a.digest)),
        },
        Some(M::Node(n)) => match &n.msg {
            None => "nempty".into(),
            Some(N::Cast(c)) => format!("cast:{}", c.to),
            Some(N::Call(c)) => format!("call:{}:{}", c.to, c.tag),
            // the driver predicts `reply:<to>` (the tag is the adversary's own)
            Some(N::Reply(r)) => format!("reply:{}", r.to),
        },
        Some(M::Control(c)) => match &c.msg {
            None => "cempty".into(),
            Some(C::Ready(_)) => "ready".into(),
            Some(C::Spawn(s)) => format!("spawn:{}", pids(&s.actors)),
            Some(C::Terminate(t)) => format!("term:{}", show_pids(&t.ids)),
            Some(C::Ping(_)) => "ping".into(),
            Some(C::Pong(_)) => "pong".into(),
            Some(C::PgJoin(j)) => format!("pgjoin:{}:{}:{}", word(&j.scope), word(&j.group), pids(&j.actors)),
            Some(C::PgLeave(j)) => format!("pgleave:{}:{}:{}", word(&j.scope), word(&j.group), pids(&j.actors)),
            Some(C::EnumerateNodeSessions(n)) => format!("enum:{}", word(&n.name)),
            Some(C::NodeSessions(s)) => {
                let mut l: Vec<(String, String)> = s.sessions.iter().map(|n| (n.name.clone(), n.connection_string.clone())).collect();
                l.sort();
                let l: Vec<String> = l.iter().map(|(n, c)| format!("{}^{}", word(n), word(c))).collect();
                format!("nodesessions:{}", if l.is_empty() { "-".into() } else { l.join(";") })
            }
        },
    }
}

/// descriptor -> frame bytes the adversary writes
fn encode_desc(d: &str) -> Option<Vec<u8>> {
    use proto::control::control_message::Msg as C;
    use proto::meta::network_message::Message as M;
    use proto::node::node_message::Msg as N;
    let actors = |s: &str| -> Option<Vec<proto::control::Actor>> {
        Some(parse_pids(s)?.into_iter().map(|pid| proto::control::Actor { pid, name: if pid % 2 == 0 { Some(format!("n{pid}")) } else { None } }).collect())
    };
    let ctl = |m: Option<C>| Some(M::Control(proto::control::ControlMessage { msg: m }));
    let node = |m: Option<N>| Some(M::Node(proto::node::NodeMessage { msg: m }));
    let p: Vec<&str> = d.split(':').collect();
    let hit_args = {
        // derived-enum packing of `Hit(u32)`: u64 BE length, then the 4 bytes
        let mut v = 4u64.to_be_bytes().to_vec();
        v.extend_from_slice(&5u32.to_be_bytes());
        v
    };
    let message = match p.as_slice() {
        ["netempty"] => None,
        ["cast", to] => node(Some(N::Cast(proto::node::Cast { to: to.parse().ok()?, what: hit_args, variant: "Hit".into(), metadata: None }))),
        ["call", to, tag] => node(Some(N::Call(proto::node::Call {
            to: to.parse().ok()?,
            what: vec![],
            tag: tag.parse().ok()?,
            timeout_ms: None,
            variant: "Ask".into(),
            metadata: None,
        }))),
        ["reply", to, tag] => node(Some(N::Reply(proto::node::CallReply { to: to.parse().ok()?, tag: tag.parse().ok()?, what: vec![1] }))),
        ["nempty"] => node(None),
        ["ready"] => ctl(Some(C::Ready(proto::control::Ready {}))),
        ["spawn", a] => ctl(Some(C::Spawn(proto::control::Spawn { actors: actors(a)? }))),
        ["term", a] => ctl(Some(C::Terminate(proto::control::Terminate { ids: parse_pids(a)? }))),
        ["ping"] => ctl(Some(C::Ping(proto::control::Ping { timestamp: None }))),
        ["pong"] => ctl(Some(C::Pong(proto::control::Pong { timestamp: None }))),
        ["pgjoin", sc, g, a] => ctl(Some(C::PgJoin(proto::control::PgJoin { group: unword(g), actors: actors(a)?, scope: unword(sc) }))),
        ["pgleave", sc, g, a] => ctl(Some(C::PgLeave(proto::control::PgLeave { group: unword(g), actors: actors(a)?, scope: unword(sc) }))),
        ["enum", n, c] => ctl(Some(C::EnumerateNodeSessions(proto::auth::NameMessage {
            name: unword(n),
            flags: None,
            connection_string: unword(c),
            connection_id: 0,
        }))),
        ["nodesessions", l] => {
            let sessions = if *l == "-" {
                vec![]
            } else {
                l.split(';')
                    .filter_map(|e| e.split_once('^'))
                    .map(|(n, c)| proto::auth::NameMessage { name: unword(n), flags: None, connection_string: unword(c).replace('~', ":"), connection_id: 0 })
                    .collect()
            };
            ctl(Some(C::NodeSessions(proto::control::NodeSessions { sessions })))
        }
        ["cempty"] => ctl(None),
        _ => Some(M::Auth(parse_amsg(d)?)),
    };
    let m = proto::NetworkMessage { message };
    let payload = m.encode_to_vec();
    let mut v = (payload.len() as u64).to_be_bytes().to_vec();
    v.extend_from_slice(&payload);
    Some(v)
}

// ------------------------------------------------------------------ one NodeServer and its observers

struct World {
    node: ActorRef<NodeServerMessage>,
    node_handle: Option<ractor::concurrency::JoinHandle<()>>,
    name: String,
    this_conn: Option<String>,
    log: Shared,
    conns: BTreeMap<u64, Conn>,
    /// live probes: pid -> (cell, remotable)
    probes: BTreeMap<u64, (ActorCell, bool)>,
    label: u64,
    /// connections whose session has been seen dead
    dead: Vec<u64>,
    transitive: bool,
    /// the configured `max_inbound_frame_size` (None = the 16 MiB default)
    #[allow(dead_code)]
    limit: Option<u64>,
    /// a real TCP listener the adversary advertises in `NodeSessions` frames (transitive mode)
    bait: Option<std::net::TcpListener>,
}

impl World {
    async fn new(name: &str, case_no: u64, transitive: bool, limit: Option<u64>) -> World {
        let mode = if transitive { ractor_cluster::node::NodeConnectionMode::Transitive } else { ractor_cluster::node::NodeConnectionMode::Isolated };
        let mut server = NodeServer::new(0, cookie(), name.to_string(), format!("h{case_no}"), None, Some(mode));
        if let Some(l) = limit {
            // a non-default limit on inbound frames: must hold for every session, however it was opened
            server = server.with_max_inbound_frame_size(l);
        }
        let (node, h) = Actor::spawn(None, server, ()).await.expect("node server");
        quiesce().await;
        let mut w = World {
            node,
            node_handle: Some(h),
            name: format!("{name}@h{case_no}"),
            this_conn: None,
            log: Arc::new(Mutex::new(Vec::new())),
            conns: BTreeMap::new(),
            probes: BTreeMap::new(),
            label: 0,
            dead: Vec::new(),
            transitive,
            limit,
            bait: if transitive {
                let l = std::net::TcpListener::bind("127.0.0.1:0").expect("bait listener");
                l.set_nonblocking(true).expect("nonblocking");
                Some(l)
            } else {
                None
            },
        };
        // learn this node's connection string (the listener port is chosen by the OS): a throw-away
        // client-side session announces it in its first frame
        let mut c = w.connect(false, true).await;
        let _ = c.drain(&mut w.this_conn).await;
        drop(c);
        quiesce().await;
        quiesce().await;
        w
    }

    /// `ext`: through `ConnectionOpenedExternal` / `client_connect_external` (external-transport
    /// creation site); otherwise through `ConnectionOpened` (the creation site the TCP listener and
    /// `client::connect` use) with an in-memory `NetworkStream`.
    async fn connect(&mut self, is_server: bool, ext: bool) -> Conn {
        if tcp_mode() && self.this_conn.is_some() {
            return self.connect_tcp(is_server).await;
        }
        let before: Vec<_> = self.node.get_children().iter().map(|c| c.get_id()).collect();
        let (ours, theirs) = tokio::io::duplex(1 << 20);
        self.label += 1;
        let label = format!("c{}", self.label);
        if ext {
            let stream = Box::new(Duplex { stream: theirs, label });
            if is_server {
                let _ = self.node.cast(NodeServerMessage::ConnectionOpenedExternal { stream, is_server: true });
            } else {
                let _ = ractor_cluster::client_connect_external(&self.node, stream).await;
            }
        } else {
            let (r, w) = tokio::io::split(theirs);
            let stream = Box::new(ractor_cluster::NetworkStream::External {
                peer_label: Some(label.clone()),
                local_label: Some(label),
                reader: Box::new(r),
                writer: Box::new(w),
            });
            let _ = self.node.cast(NodeServerMessage::ConnectionOpened { stream, is_server });
        }
        quiesce().await;
        let cell = self.node.get_children().into_iter().find(|c| !before.contains(&c.get_id()));
        let (r, w) = tokio::io::split(ours);
        Conn { r: Box::new(r), w: Some(Box::new(w)), tcp_fd: None, tcp_ports: None, tw: None, pump: None, frag: None, buf: Vec::new(), cell, is_server, chals: Vec::new(), last_issued: None, last_digest: None }
    }

    /// A real loopback TCP connection. `is_server`: the adversary dials the node's real `Listener`
    /// (accept -> `ConnectionOpened { is_server: true }`); otherwise the node dials the adversary's
    /// listener through the real `ractor_cluster::client_connect` (`node/client.rs: connect`).
    /// Event-driven: the dial is a blocking connect (handshake complete on return), the accept and the
    /// appearance of the node's session actor are waited for (bounded), never assumed.
    async fn connect_tcp(&mut self, is_server: bool) -> Conn {
        let before: Vec<_> = self.node.get_children().iter().map(|c| c.get_id()).collect();
        let port = self.this_conn.as_deref().and_then(tcpq::port_of).expect("node port");
        self.label += 1;
        let stream = if is_server {
            tcpq::dial(port).expect("dial the node's listener")
        } else {
            let (l, p) = tcpq::listen().expect("adversary listener");
            let node = self.node.clone();
            let h = tokio::spawn(async move { ractor_cluster::client_connect(&node, ("127.0.0.1", p)).await.is_ok() });
            let s = tcpq::accept_one(&l, 20).await.expect("the node did not connect");
            assert!(h.await.unwrap_or(false), "client_connect failed on an accepting listener");
            s
        };
        let node = self.node.clone();
        let mut cell = None;
        tcpq::wait_until(
            || {
                cell = node.get_children().into_iter().find(|c| !before.contains(&c.get_id()));
                cell.is_some()
            },
            20,
        )
        .await;
        use std::os::fd::AsRawFd;
        let fd = stream.as_raw_fd();
        let ports = (stream.local_addr().map(|a| a.port()).unwrap_or(0), stream.peer_addr().map(|a| a.port()).unwrap_or(0));
        let (mut tr, tw) = stream.into_split();
        let (pipe_r, mut pipe_w) = tokio::io::duplex(1 << 22);
        // our end is read continuously (a receive queue nobody drains is not "quiet")
        let pump = tokio::spawn(async move {
            let mut b = [0u8; 4096];
            loop {
                match tr.read(&mut b).await {
                    Ok(0) | Err(_) => break,
                    Ok(n) => {
                        if pipe_w.write_all(&b[..n]).await.is_err() {
                            break;
                        }
                    }
                }
            }
        });
        quiesce().await;
        let frag = Rng::new(0x7C9 ^ (self.label << 20) ^ port as u64);
        Conn { r: Box::new(pipe_r), w: None, tcp_fd: Some(fd), tcp_ports: Some(ports), tw: Some(tw), pump: Some(pump), frag: Some(frag), buf: Vec::new(), cell, is_server, chals: Vec::new(), last_issued: None, last_digest: None }
    }

    async fn spawn_probe(&mut self, remotable: bool, group: Option<(&str, &str)>) -> u64 {
        let cell = if remotable {
            Actor::spawn(None, Probe(self.log.clone()), ()).await.expect("probe").0.get_cell()
        } else {
            Actor::spawn(None, Plain(self.log.clone()), ()).await.expect("plain").0.get_cell()
        };
        if let Some((sc, g)) = group {
            ractor::pg::join_scoped(sc.to_string(), g.to_string(), vec![cell.clone()]);
        }
        let pid = cell.get_id().pid();
        self.probes.insert(pid, (cell, remotable));
        pid
    }

    fn rem_now(&self) -> Vec<u64> {
        self.probes.iter().filter(|(_, (c, r))| *r && c.get_status() == ractor::ActorStatus::Running).map(|(p, _)| *p).collect()
    }

    /// The observation after an op on connection `k`.
    async fn observe(&mut self, k: u64) -> (String, Vec<String>) {
        quiesce().await;
        quiesce().await;
        let mut tc = self.this_conn.clone();
        let conn = self.conns.get_mut(&k).unwrap();
        let mut sent = conn.drain(&mut tc).await;
        {
            // replies to calls are produced concurrently by forwarder tasks: list them last, by pid
            let (mut replies, rest): (Vec<String>, Vec<String>) = sent.into_iter().partition(|f| f.starts_with("reply:"));
            replies.sort_by_key(|f| f["reply:".len()..].parse::<u64>().unwrap_or(0));
            sent = rest;
            sent.extend(replies);
        }
        if self.this_conn.is_none() {
            self.this_conn = tc;
        }
        let mut probe = std::mem::take(&mut *self.log.lock().unwrap());
        // grouped by target pid, arrival order kept per target (cross-actor order is scheduling)
        probe.sort_by_key(|e| e.split(':').next().and_then(|p| p.parse::<u64>().ok()).unwrap_or(0));
        let cell = conn.cell.clone();
        let alive = cell.as_ref().map(|c| (c.get_status() as u8) < (ractor::ActorStatus::Stopping as u8)).unwrap_or(false);
        let children: Vec<ActorCell> = cell.as_ref().map(|c| c.get_children()).unwrap_or_default();
        let proxy_ids: Vec<ractor::ActorId> = children.iter().map(|c| c.get_id()).filter(|i| !i.is_local()).collect();
        let mut proxies: Vec<u64> = proxy_ids.iter().map(|i| i.pid()).collect();
        proxies.sort_unstable();
        let mut pg: Vec<String> = Vec::new();
        for key in ractor::pg::which_scopes_and_groups() {
            let mut m: Vec<u64> = ractor::pg::get_scoped_members(&key.get_scope(), &key.get_group())
                .iter()
                .map(|c| c.get_id())
                .filter(|i| proxy_ids.contains(i))
                .map(|i| i.pid())
                .collect();
            m.sort_unstable();
            if !m.is_empty() {
                pg.push(format!("{}/{}:{}", word(&key.get_scope()), word(&key.get_group()), show_pids(&m)));
            }
        }
        pg.sort();
        let listed = match (cell.as_ref(), ractor::call_t!(self.node, NodeServerMessage::GetSessions, 1000)) {
            (Some(c), Ok(map)) => map.values().any(|s| s.actor.get_id() == c.get_id()),
            _ => false,
        };
        if !alive && !self.dead.contains(&k) {
            self.dead.push(k);
        }
        let obs = format!(
            "sent=[{}] probe=[{}] proxies=[{}] pg=[{}] listed={} alive={}",
            sent.join("|"),
            probe.join("|"),
            show_pids(&proxies),
            pg.join(";"),
            listed as u8,
            alive as u8
        );
        (obs, sent)
    }

    async fn shutdown(mut self) {
        for (_, (c, _)) in std::mem::take(&mut self.probes) {
            c.stop(None);
        }
        self.conns.clear();
        self.node.stop(None);
        if let Some(h) = self.node_handle.take() {
            let _ = h.await;
        }
        quiesce().await;
    }
}

/// Sessions other than `k` that the NodeServer stopped meanwhile (losers of an election).
async fn note_killed(w: &mut World, log: &mut Log, st: &mut Stats, k: u64) {
    let others: Vec<u64> = w.conns.keys().copied().filter(|x| *x != k).collect();
    for o in others {
        let dead = w.conns[&o].cell.as_ref().map(|c| (c.get_status() as u8) >= (ractor::ActorStatus::Stopping as u8)).unwrap_or(true);
        if dead && !w.dead.contains(&o) {
            let (obs, _) = w.observe(o).await;
            st.bump("lts_killed_by_node_server");
            log.rec(format!("killed {o}"), obs);
        }
    }
}

/// environment fields of a `send` op, read off what the node did
fn env_fields(w: &mut World, k: u64, sent: &[String], desc: &str, known: Option<String>) -> String {
    let mut check = "failed";
    let mut fresh = 0u32;
    let mut elected = 0;
    let mut pids = "-".to_string();
    let mut groups: Vec<String> = vec![];
    let mut sessions = known.unwrap_or("none".to_string());
    let mut cs: Vec<u32> = challenges_of(desc);
    if let Some(c) = w.conns.get(&k) {
        cs.extend(c.chals.iter().copied());
    }
    for f in sent {
        let p: Vec<&str> = f.split(':').collect();
        match p.as_slice() {
            ["sstatus", n] => {
                check = match *n {
                    "0" => "noOther",
                    "1" => "thisContinues",
                    "2" => "otherContinues",
                    "4" => "duplicate",
                    _ => "failed",
                }
            }
            ["schal", _, c] => {
                fresh = c.parse().unwrap_or(0);
                cs.push(fresh);
            }
            ["cchal", c, _] => {
                fresh = c.parse().unwrap_or(0);
                cs.push(fresh);
            }
            ["ready"] => elected = 1,
            ["spawn", a] => {
                if pids == "-" {
                    pids = a.to_string()
                }
            }
            ["pgjoin", sc, g, a] => groups.push(format!("{sc}/{g}/{a}")),
            ["nodesessions", l] => sessions = l.to_string(),
            _ => {}
        }
    }
    if let Some(c) = w.conns.get_mut(&k) {
        c.chals = cs.clone();
        c.chals.sort_unstable();
        c.chals.dedup();
    }
    format!(
        "check={check} elected={elected} fresh={fresh} pids={pids} groups={} rem={} sessions={sessions} h={}",
        if groups.is_empty() { "-".into() } else { groups.join(";") },
        show_pids(&w.rem_now()),
        htable(&cs)
    )
}

/// What a peer WITHOUT the cookie can read off the node's frames on connection `k`.
fn note_node_frames(w: &mut World, k: u64, sent: &[String]) {
    if let Some(c) = w.conns.get_mut(&k) {
        for f in sent {
            let p: Vec<&str> = f.split(':').collect();
            match p.as_slice() {
                ["schal", _, ch] => c.last_issued = ch.parse().ok(),
                ["cchal", ch, dg] => {
                    c.last_issued = ch.parse().ok();
                    c.last_digest = Some(dg.to_string());
                }
                ["sack", dg] => c.last_digest = Some(dg.to_string()),
                _ => {}
            }
        }
    }
}

async fn op_send(w: &mut World, log: &mut Log, st: &mut Stats, k: u64, desc: &str) -> Vec<String> {
    op_send_as(w, log, st, k, desc, format!("send {k} {desc}")).await
}

/// The relaying peer (no cookie): a frame on connection `k` built ONLY from what the node itself
/// sent on connection `from`.
///   `schal:<name>:<conn>`  a `ServerChallenge` carrying the challenge the node issued on `from`
///   `cchal`                a `ChallengeReply` carrying the last digest the node sent on `from`
///                          (and, as the peer's own challenge, the challenge the node issued on `from`)
///   `cguess`               a `ChallengeReply` carrying the challenge the node issued on `from` and a digest
///                          computed with the peer's own (wrong) cookie
///   `sack`                 a `ChallengeAck` carrying the last digest the node sent on `from`
/// Logged as `relay <k> <from> <kind> frame=<the frame written> …` (the driver replays `frame=` as
/// an ordinary frame; on replay the frame is rebuilt from this run's values).
async fn op_relay(w: &mut World, log: &mut Log, st: &mut Stats, k: u64, from: u64, kind: &str) -> Vec<String> {
    let (issued, dg) = match w.conns.get(&from) {
        Some(c) => (c.last_issued, c.last_digest.clone()),
        None => (None, None),
    };
    let p: Vec<&str> = kind.split(':').collect();
    let desc = match (p.as_slice(), issued, dg) {
        (["schal", n, c], Some(ch), _) => format!("schal:{n}:{c}:{ch}"),
        (["cchal"], Some(ch), Some(d)) => format!("cchal:{ch}:{d}"),
        (["cchal"], None, Some(d)) => format!("cchal:7:{d}"),
        (["sack"], _, Some(d)) => format!("sack:{d}"),
        // wave 2: a `ChallengeReply` whose challenge is the one the node issued on `from` and whose digest
        // the peer computed with a cookie of its own (it has no digest of the node to copy)
        (["cguess"], Some(ch), _) => format!("cchal:{ch}:{}", hex(&digest(&wrong_cookie(), ch))),
        _ => {
            log.rec(format!("relay {k} {from} {kind} frame=-"), "nothing-to-relay");
            return vec![];
        }
    };
    st.bump("lts_relay");
    st.bump(&format!("lts_relay_{}", p[0]));
    op_send_as(w, log, st, k, &desc, format!("relay {k} {from} {kind} frame={desc}")).await
}

async fn op_send_as(w: &mut World, log: &mut Log, st: &mut Stats, k: u64, desc: &str, head: String) -> Vec<String> {
    let Some(bytes) = encode_desc(desc) else {
        log.rec(head, "unparsable-in-replay");
        return vec![];
    };
    if !w.conns.contains_key(&k) {
        log.rec(head, "no-such-connection");
        return vec![];
    }
    // what `GetSessions` lists right now (the `NodeSessions` handler asks for it in transitive mode)
    let known = if desc.starts_with("nodesessions") {
        match ractor::call_t!(w.node, NodeServerMessage::GetSessions, 1000) {
            Ok(map) => {
                let mut l: Vec<String> = map
                    .values()
                    .filter_map(|s| s.peer_name.as_ref())
                    .map(|n| format!("{}^{}", word(&n.name), word(&n.connection_string)))
                    .collect();
                l.sort();
                Some(if l.is_empty() { "-".to_string() } else { l.join(";") })
            }
            Err(_) => None,
        }
    } else {
        None
    };
    w.conns.get_mut(&k).unwrap().write(&bytes).await;
    let (obs, sent) = w.observe(k).await;
    st.bump("lts_send");
    st.bump(&format!("lts_send_{}", desc.split(':').next().unwrap()));
    if obs.contains("probe=[") && !obs.contains("probe=[]") {
        st.bump("lts_probe_delivery");
    }
    if obs.contains("listed=1") {
        st.bump("lts_obs_listed");
    }
    let env = env_fields(w, k, &sent, desc, known);
    note_node_frames(w, k, &sent);
    log.rec(format!("{head} len={} {env}", bytes.len() - 8), obs);
    note_killed(w, log, st, k).await;
    sent
}

/// Several frames written back-to-back (one write, no waiting for the node in between).
async fn op_batch(w: &mut World, log: &mut Log, st: &mut Stats, k: u64, descs: &[String]) -> Vec<String> {
    let mut bytes = Vec::new();
    let mut lens: Vec<String> = Vec::new();
    for d in descs {
        match encode_desc(d) {
            Some(b) => {
                lens.push((b.len() - 8).to_string());
                bytes.extend(b)
            }
            None => {
                log.rec(format!("batch {k} {}", descs.join("+")), "unparsable-in-replay");
                return vec![];
            }
        }
    }
    if !w.conns.contains_key(&k) {
        return vec![];
    }
    w.conns.get_mut(&k).unwrap().write(&bytes).await;
    let (obs, sent) = w.observe(k).await;
    st.bump("lts_batch");
    if obs.contains("probe=[") && !obs.contains("probe=[]") {
        st.bump("lts_probe_delivery");
    }
    let joined = descs.join("+");
    if let Some(c) = w.conns.get_mut(&k) {
        for d in descs {
            c.chals.extend(challenges_of(d));
        }
    }
    let env = env_fields(w, k, &sent, &joined, None);
    note_node_frames(w, k, &sent);
    log.rec(format!("batch {k} {joined} len={} {env}", lens.join("+")), obs);
    note_killed(w, log, st, k).await;
    sent
}

async fn op_open(w: &mut World, log: &mut Log, st: &mut Stats, k: u64, server: bool, ext: bool) -> Vec<String> {
    let conn = w.connect(server, ext).await;
    st.bump(if ext { "lts_open_path_external" } else { "lts_open_path_tcp_site" });
    w.conns.insert(k, conn);
    let mut tc = w.this_conn.clone();
    let sent = w.conns.get_mut(&k).unwrap().drain(&mut tc).await;
    let connid = sent
        .iter()
        .find_map(|f| {
            let p: Vec<&str> = f.split(':').collect();
            match p.as_slice() {
                ["name", _, id] => id.parse::<u64>().ok(),
                _ => None,
            }
        })
        .unwrap_or(0);
    st.bump(if server { "lts_open_server" } else { "lts_open_client" });
    note_node_frames(w, k, &sent);
    log.rec(
        format!(
            "open {k} {} thisname={} thisconn={} connid={connid} transitive={} path={}",
            if server { "server" } else { "client" },
            word(&w.name),
            word(w.this_conn.as_deref().unwrap_or("?")),
            w.transitive as u8,
            if ext { "ext" } else { "tcp" }
        ),
        format!("sent=[{}]", sent.join("|")),
    );
    sent
}

async fn op_local(w: &mut World, log: &mut Log, st: &mut Stats, what: &str, pid_hint: Option<u64>) {
    // a local actor appears / disappears: every open session is told by the pid registry
    let (pid, rem, groups) = if what == "spawn" {
        let rem = pid_hint.map(|p| p % 2 == 0).unwrap_or(true);
        let grp = if pid_hint.map(|p| p >= 2).unwrap_or(false) { Some(("sc", "g2")) } else { None };
        let pid = w.spawn_probe(rem, grp).await;
        (pid, rem, grp.map(|(s, g)| format!("{s}/{g}/{pid}")).unwrap_or("-".into()))
    } else {
        let Some(pid) = pid_hint.filter(|p| w.probes.contains_key(p)).or_else(|| w.probes.keys().next().copied()) else {
            return;
        };
        let (cell, rem) = w.probes.remove(&pid).unwrap();
        let mut gs: Vec<String> = Vec::new();
        for key in ractor::pg::which_scopes_and_groups() {
            if ractor::pg::get_scoped_local_members(&key.get_scope(), &key.get_group()).iter().any(|c| c.get_id() == cell.get_id()) {
                gs.push(format!("{}/{}/{pid}", key.get_scope(), key.get_group()));
            }
        }
        gs.sort();
        cell.stop(None);
        (pid, rem, if gs.is_empty() { "-".into() } else { gs.join(";") })
    };
    st.bump(&format!("lts_local_{what}"));
    let ks: Vec<u64> = w.conns.keys().copied().collect();
    for k in ks {
        let (obs, _) = w.observe(k).await;
        log.rec(format!("local {k} {what} {pid} {} groups={groups}", rem as u8), obs);
    }
}

async fn op_garbage(w: &mut World, log: &mut Log, st: &mut Stats, k: u64, bytes: &[u8]) {
    if !w.conns.contains_key(&k) {
        return;
    }
    w.conns.get_mut(&k).unwrap().write(bytes).await;
    let (obs, _) = w.observe(k).await;
    st.bump("lts_garbage");
    log.rec(format!("garbage {k} {}", hex(bytes)), obs);
}

/// A frame header declaring `declared` payload bytes, followed by only `n` payload bytes.
async fn op_declare(w: &mut World, log: &mut Log, st: &mut Stats, k: u64, declared: u64, n: usize) {
    if !w.conns.contains_key(&k) {
        return;
    }
    let mut v = declared.to_be_bytes().to_vec();
    v.extend(std::iter::repeat(0x0a).take(n));
    w.conns.get_mut(&k).unwrap().write(&v).await;
    let (obs, _) = w.observe(k).await;
    st.bump("lts_declare");
    log.rec(format!("declare {k} {declared} {n}"), obs);
}

/// An authentication frame of this session's next expected kind whose payload is exactly `len`
/// bytes (the peer name is padded): `name:…` on a server-side session, `schal:…` on a client-side one.
fn padded_frame(server_side: bool, len: usize, id: u64) -> Option<String> {
    for conn in ["pc", "pcc", "pccc", "pcccc"] {
        let lo = len.saturating_sub(40);
        for n in lo..=len {
            let name = format!("{}@p", "q".repeat(n));
            let d = if server_side { format!("name:{name}:{conn}:{id}") } else { format!("schal:{name}:{conn}:{id}") };
            if let Some(b) = encode_desc(&d) {
                if b.len() - 8 == len {
                    return Some(d);
                }
                if b.len() - 8 > len {
                    break;
                }
            }
        }
    }
    None
}

async fn op_drop(w: &mut World, log: &mut Log, st: &mut Stats, k: u64) {
    if let Some(c) = w.conns.get_mut(&k) {
        if c.frag.is_some() {
            // real socket: FIN (half or full close) or RST; the session's death is waited for
            // (bounded) - if it never comes the observation says alive=1 and the model disagrees
            let how = c.tcp_drop().await;
            st.bump(&format!("tcp_drop_{how}"));
            // event-driven: until the node's socket has RECEIVED our FIN / RST (it leaves ESTABLISHED -
            // read off the kernel), then rest; the session must be dead at that rest point: waiting for
            // its death instead would let the ping loop (virtual seconds later) hide a reader that
            // ignores the end of the stream
            if let Some((ours, nodes)) = c.tcp_ports {
                tcpq::wait_until(|| tcpq::sock_state(nodes, ours) != Some(1), 10).await;
            }
            quiesce().await;
        } else if let Some(mut wh) = c.w.take() {
            let _ = wh.shutdown().await; // the node reads EOF
        }
        let (obs, _) = w.observe(k).await;
        st.bump("lts_drop");
        log.rec(format!("drop {k}"), obs);
    }
}

/// How many TCP connections the node opened to the address the adversary advertised.
async fn op_connects(w: &mut World, log: &mut Log, st: &mut Stats) {
    let Some(l) = w.bait.as_ref() else { return };
    let mut n = 0;
    // until no new connection has arrived for 4 consecutive rounds (at most 40 rounds)
    let mut quiet = 0;
    for _ in 0..40 {
        std::thread::sleep(Duration::from_millis(5));
        quiesce().await;
        let before = n;
        while let Ok((s, _)) = l.accept() {
            drop(s);
            n += 1;
        }
        quiet = if n == before { quiet + 1 } else { 0 };
        if quiet >= 4 {
            break;
        }
    }
    st.bump("lts_connects_op");
    st.add("lts_connects_seen", n);
    log.rec("connects", n.to_string());
}

// ------------------------------------------------------------------ the adversary

fn last_challenge(sent: &[String], server_side: bool) -> Option<u32> {
    sent.iter().rev().find_map(|f| {
        let p: Vec<&str> = f.split(':').collect();
        match p.as_slice() {
            ["schal", _, c] if server_side => c.parse().ok(),
            ["cchal", c, _] if !server_side => c.parse().ok(),
            _ => None,
        }
    })
}

fn pick_pid(w: &World, rng: &mut Rng, k: u64) -> u64 {
    let rem = w.rem_now();
    if !rem.is_empty() && rng.chance(1, 2) {
        return *rng.pick(&rem);
    }
    let mut cands: Vec<u64> = w.probes.keys().copied().collect();
    cands.push(w.node.get_id().pid());
    if let Some(c) = w.conns.get(&k).and_then(|c| c.cell.as_ref()) {
        cands.push(c.get_id().pid());
    }
    cands.push(0);
    cands.push(999_999);
    *rng.pick(&cands)
}

fn random_frame(w: &World, rng: &mut Rng, k: u64, chal: Option<u32>) -> String {
    let remote_pids = ["1", "2", "3", "1,2", "2,3,4", "-"];
    let scopes = ["sc", "s2"];
    let groups = ["g1", "g2"];
    let good = |c: u32| hex(&reference_digest(&cookie(), c));
    let bad = |c: u32| hex(&digest(&wrong_cookie(), c));
    let c = chal.unwrap_or(17);
    let roll = if w.bait.is_some() && rng.chance(1, 4) { 23 } else { rng.below(26) };
    match roll {
        0 => format!("name:{}:{}:{}", rng.pick(&["evil@h", "peer@x", "-"]), rng.pick(&["evil:1".replace(':', "_").as_str(), "pc"]), rng.below(3)),
        1 => format!("sstatus:{}", rng.below(6)),
        2 => format!("cstatus:{}", rng.below(2)),
        3 => format!("schal:{}:{}:{}", rng.pick(&["srv@h", "peer@x"]), "pc", rng.below(1000)),
        4 => format!("cchal:{}:{}", rng.below(1000), if rng.chance(1, 2) { good(c) } else { bad(c) }),
        5 => format!("sack:{}", if rng.chance(1, 2) { good(c) } else { bad(c) }),
        6 => "aempty".into(),
        7 | 8 | 9 => format!("cast:{}", pick_pid(w, rng, k)),
        10 | 11 => format!("call:{}:{}", pick_pid(w, rng, k), rng.below(5)),
        12 => format!("reply:{}:{}", rng.pick(&[1u64, 2, 3, 9]), rng.below(3)),
        13 => "nempty".into(),
        14 => "ready".into(),
        15 | 16 => format!("spawn:{}", rng.pick(&remote_pids)),
        17 => format!("term:{}", rng.pick(&remote_pids)),
        18 => "ping".into(),
        19 => "pong".into(),
        20 | 21 => format!("pgjoin:{}:{}:{}", rng.pick(&scopes), rng.pick(&groups), rng.pick(&remote_pids)),
        22 => format!("pgleave:{}:{}:{}", rng.pick(&scopes), rng.pick(&groups), rng.pick(&remote_pids)),
        23 => {
            if let (Some(l), true) = (w.bait.as_ref(), rng.chance(2, 3)) {
                let a = l.local_addr().map(|a| a.to_string()).unwrap_or("127.0.0.1:1".into()).replace(':', "~");
                // a peer the node does not know (connect), itself (skip), the asking peer (skip)
                match rng.below(5) {
                    0 => format!("nodesessions:far@h^{a}"),
                    1 => format!("nodesessions:{}^{a};far2@h^{a}", w.name),
                    // peers the node may already be connected to (by NAME): only the unknown one is dialled
                    2 => format!("nodesessions:evil@h^{a};zed@h^{a}"),
                    // … or by CONNECTION STRING (the adversary's sessions announce `pc` / `pc2`), and the
                    // node's own connection string under a foreign name
                    3 => format!("nodesessions:alias@h^pc;alias2@h^pc2;far3@h^{a};me2@h^{}", w.this_conn.clone().unwrap_or_default().replace(':', "~")),
                    _ => "nodesessions:-".to_string(),
                }
            } else {
                format!("enum:{}:{}", rng.pick(&["evil@h", "q@h"]), "pc")
            }
        }
        24 => "cempty".into(),
        _ => "netempty".into(),
    }
}

async fn lts_case(log: &mut Log, st: &mut Stats, rng: &mut Rng, case_no: u64) {
    let short = format!("node{}", case_no % 3);
    let transitive = case_no % 8 == 5;
    let limit = if case_no % 6 == 1 { Some(4096) } else { None };
    // one case in three: a long real cookie, and an intruder whose cookie shares a long prefix with it
    if rng.chance(1, 3) {
        let n = rng.range(64, 128) as usize;
        let real = ascii(rng, n);
        let p = (*rng.pick(&[60usize, 60, 61, 63, 64, n - 1])).min(n - 1);
        let wrong = format!("{}{}", &real[..p], "#".repeat(rng.range(1, (n - p) as u64 + 3) as usize));
        set_cookies(&real, &wrong);
        st.bump("lts_long_cookie_shared_prefix");
    } else {
        set_cookies("", "");
    }
    let mut w = World::new(&short, case_no, transitive, limit).await;
    let name = w.name.clone();
    log.rec(
        format!(
            "node {short} transitive={} limit={} cookie={} wrong={}",
            transitive as u8,
            limit.unwrap_or(ractor_cluster::DEFAULT_MAX_INBOUND_FRAME_SIZE),
            cookie(),
            wrong_cookie()
        ),
        "ok",
    );
    // local actors: a remotable probe in a group, a non-remotable one in a group, a remotable loner
    w.spawn_probe(true, Some(("sc", "g1"))).await;
    w.spawn_probe(false, Some(("sc", "g1"))).await;
    if rng.chance(1, 2) {
        w.spawn_probe(true, None).await;
    }
    let mode = rng.below(10);
    st.bump(&format!("lts_mode_{mode}"));
    let server_side = rng.chance(2, 3);
    let k = 0u64;
    let mut sent = op_open(&mut w, log, st, k, server_side, rng.chance(1, 2)).await;
    let knows_cookie = mode < 5;
    let mut chal: Option<u32> = last_challenge(&sent, server_side);
    let peer = if mode == 9 { name.clone() } else { rng.pick(&["evil@h", "zed@h"]).to_string() };
    // phase 1: a handshake attempt (possibly with deviations)
    if mode != 8 {
        // pre-authentication noise
        for _ in 0..rng.below(3) {
            let f = random_frame(&w, rng, k, chal);
            if !f.contains("cchal") && !f.contains("sack") && !f.starts_with("name") && !f.starts_with("sstatus") && !f.starts_with("schal") && !f.starts_with("cstatus") && !f.starts_with("aempty") {
                op_send(&mut w, log, st, k, &f).await;
            }
        }
        let good = |c: u32| hex(&reference_digest(&cookie(), c));
        let bad = |c: u32| hex(&digest(&wrong_cookie(), c));
        if server_side {
            sent = op_send(&mut w, log, st, k, &format!("name:{peer}:pc:{}", rng.below(3))).await;
            chal = last_challenge(&sent, true).or(chal);
            if mode == 6 {
                // out of order: another Name instead of the reply
                op_send(&mut w, log, st, k, &format!("name:{peer}:pc:1")).await;
            }
            if let Some(c) = chal {
                let dg = if knows_cookie {
                    good(c)
                } else {
                    match rng.below(4) {
                        0 => bad(c),
                        1 => good(c.wrapping_add(1)),
                        2 => "-".to_string(),
                        _ => good(c)[..60].to_string(),
                    }
                };
                op_send(&mut w, log, st, k, &format!("cchal:{}:{dg}", rng.below(100_000))).await;
            }
        } else {
            op_send(&mut w, log, st, k, &format!("sstatus:{}", if mode == 7 { *rng.pick(&[2u64, 3, 4]) } else { *rng.pick(&[0u64, 0, 1, 5]) })).await;
            sent = op_send(&mut w, log, st, k, &format!("schal:{peer}:pc:{}", rng.below(100_000))).await;
            chal = last_challenge(&sent, false).or(chal);
            if let Some(c) = chal {
                let dg = if knows_cookie { good(c) } else if rng.chance(1, 2) { bad(c) } else { good(c.wrapping_add(7)) };
                op_send(&mut w, log, st, k, &format!("sack:{dg}")).await;
            }
        }
    }
    // a burst right behind a (possibly wrong) digest: must not slip through before the stop
    if mode == 8 && server_side {
        let sent = op_send(&mut w, log, st, k, &format!("name:{peer}:pc:1")).await;
        if let Some(c) = last_challenge(&sent, true) {
            let rem = w.rem_now();
            let target = rem.first().copied().unwrap_or(1);
            let dg = if rng.chance(1, 2) { hex(&reference_digest(&cookie(), c)) } else { hex(&digest(&wrong_cookie(), c)) };
            let fs = vec![format!("cchal:9:{dg}"), format!("cast:{target}"), "spawn:1,2".to_string(), "pgjoin:sc:g2:1".to_string()];
            op_batch(&mut w, log, st, k, &fs).await;
        }
    }
    // phase 2: whatever the outcome, the peer now tries everything
    let steps = rng.range(4, 12);
    let mut tags = 0;
    for i in 0..steps {
        match rng.below(14) {
            0 if i > 1 => op_local(&mut w, log, st, "spawn", Some(rng.below(4))).await,
            1 if i > 1 => op_local(&mut w, log, st, "term", None).await,
            2 if i > 4 => {
                let g = [0u8, 0, 0, 0, 0, 0, 0, 1, 0xff];
                op_garbage(&mut w, log, st, k, &g).await
            }
            3 if i > 6 => op_drop(&mut w, log, st, k).await,
            4 | 5 => {
                // a burst: the peer does not wait for answers (only frames whose handling needs no
                // further answer from the environment)
                let n = rng.range(2, 4);
                let mut fs = Vec::new();
                for _ in 0..n {
                    let f = random_frame(&w, rng, k, chal);
                    let head = f.split(':').next().unwrap().to_string();
                    if ["cast", "call", "reply", "nempty", "ready", "spawn", "term", "ping", "pong", "pgjoin", "pgleave", "cempty", "netempty", "aempty", "cstatus", "sstatus"].contains(&head.as_str()) {
                        if head == "call" {
                            tags += 1;
                            let to = f.split(':').nth(1).unwrap().to_string();
                            fs.push(format!("call:{to}:{tags}"));
                        } else {
                            fs.push(f);
                        }
                    }
                }
                if fs.len() >= 2 {
                    op_batch(&mut w, log, st, k, &fs).await;
                }
            }
            _ => {
                let mut f = random_frame(&w, rng, k, chal);
                if f.starts_with("call:") {
                    tags += 1;
                    let to = f.split(':').nth(1).unwrap().to_string();
                    f = format!("call:{to}:{tags}");
                }
                op_send(&mut w, log, st, k, &f).await;
            }
        }
    }
    // a second session while the first may still be up: same or different peer name
    if rng.chance(1, 3) || (knows_cookie && rng.chance(1, 2)) {
        let k2 = 1u64;
        let srv2 = rng.chance(2, 3);
        let s2 = op_open(&mut w, log, st, k2, srv2, rng.chance(1, 2)).await;
        let peer2 = if rng.chance(2, 3) { peer.clone() } else { "other@h".to_string() };
        if srv2 {
            let s = op_send(&mut w, log, st, k2, &format!("name:{peer2}:pc2:{}", rng.below(3))).await;
            if let Some(c) = last_challenge(&s, true) {
                let dg = if rng.chance(1, 2) { hex(&reference_digest(&cookie(), c)) } else { hex(&digest(&wrong_cookie(), c)) };
                op_send(&mut w, log, st, k2, &format!("cchal:5:{dg}")).await;
            }
        } else {
            let _ = s2;
            op_send(&mut w, log, st, k2, "sstatus:0").await;
            let s = op_send(&mut w, log, st, k2, &format!("schal:{peer2}:pc2:99")).await;
            if let Some(c) = last_challenge(&s, false) {
                let dg = if rng.chance(1, 2) { hex(&reference_digest(&cookie(), c)) } else { hex(&digest(&wrong_cookie(), c)) };
                op_send(&mut w, log, st, k2, &format!("sack:{dg}")).await;
            }
        }
        // who is listed to whom: both sessions ask (under a name of their own and under the other's)
        for kk in [k, k2] {
            let asking = rng.pick(&["q@h", peer.as_str(), peer2.as_str()]).to_string();
            op_send(&mut w, log, st, kk, &format!("enum:{asking}:{}", rng.pick(&["zz", "pc", "pc2"]))).await;
        }
        for _ in 0..rng.below(5) {
            let kk = *rng.pick(&[k, k2]);
            let f = random_frame(&w, rng, kk, None);
            op_send(&mut w, log, st, kk, &f).await;
        }
    }
    // a peer that has only ANNOUNCED a name (no cookie proof) must not be listed to anybody
    if rng.chance(1, 3) {
        let k3 = 2u64;
        let srv3 = rng.chance(1, 2);
        op_open(&mut w, log, st, k3, srv3, rng.chance(1, 2)).await;
        if srv3 {
            op_send(&mut w, log, st, k3, "name:ghost@h:gc:1").await;
        } else {
            op_send(&mut w, log, st, k3, "sstatus:0").await;
            op_send(&mut w, log, st, k3, "schal:ghost@h:gc:5").await;
        }
        let ks: Vec<u64> = w.conns.keys().copied().collect();
        for kk in ks {
            op_send(&mut w, log, st, kk, "enum:q@h:zz").await;
        }
    }
    op_connects(&mut w, log, st).await;
    w.shutdown().await;
}


// ------------------------------------------------------------------ the relaying peer (no cookie at all)

/// A peer that does NOT know the cookie and never computes a digest: every digest and every
/// challenge it sends is copied from a frame the node itself sent on another session with it.
///
/// * variant 0 (one inbound + one outbound session of the node): the challenge the node issued on
///   its server-side session S is handed back to the node as the `ServerChallenge` of its
///   client-side session C; the node answers on C with `H cookie c`, which is exactly what S
///   waits for; the `ChallengeAck` the node then sends on S is what C waits for.
/// * variant 1 (two outbound sessions of the node, e.g. a reconnect loop): the challenge the node
///   issued inside its `ChallengeReply` on C0 is handed to it as the `ServerChallenge` of C1; its
///   `ChallengeReply` on C1 carries the digest C0 waits for.
/// * controls: the relayed digest belongs to another challenge (must close), or nothing is relayed.
async fn relay_case(log: &mut Log, st: &mut Stats, rng: &mut Rng, case_no: u64) {
    let short = format!("node{}", case_no % 3);
    set_cookies("", "");
    let mut w = World::new(&short, 700_000 + case_no, false, None).await;
    log.rec(
        format!("node {short} transitive=0 limit={} cookie={} wrong={}", ractor_cluster::DEFAULT_MAX_INBOUND_FRAME_SIZE, cookie(), wrong_cookie()),
        "ok",
    );
    w.spawn_probe(true, Some(("sc", "g1"))).await;
    w.spawn_probe(false, Some(("sc", "g1"))).await;
    let variant = rng.below(6);
    st.bump(&format!("relay_variant_{variant}"));
    let same_name = rng.chance(1, 4);
    let n0 = "evil@h".to_string();
    let n1 = if same_name { n0.clone() } else { "evil2@h".to_string() };
    let ext = rng.chance(1, 2);
    match variant {
        0 | 2 => {
            // S = connection 0 (server-side on the node), C = connection 1 (client-side on the node)
            op_open(&mut w, log, st, 0, true, ext).await;
            op_open(&mut w, log, st, 1, false, ext).await;
            op_send(&mut w, log, st, 0, &format!("name:{n0}:pc:{}", rng.below(3))).await;
            op_send(&mut w, log, st, 1, "sstatus:0").await;
            if variant == 0 {
                op_relay(&mut w, log, st, 1, 0, &format!("schal:{n1}:pc2")).await;
            } else {
                // control: a challenge of its own -> the digest it gets back is for another challenge
                op_send(&mut w, log, st, 1, &format!("schal:{n1}:pc2:{}", rng.below(100_000))).await;
            }
            op_relay(&mut w, log, st, 0, 1, "cchal").await;
            op_relay(&mut w, log, st, 1, 0, "sack").await;
        }
        4 | 5 => {
            // wave 2: the node never dials the peer — S0 = connection 0, S1 = connection 1, BOTH server-side
            // on the node (Lean: C17.inbound_only_adversary_is_never_authenticated). A server-side session
            // sends its only digest in the step that authenticates it, so there is nothing to relay; the
            // peer tries every relay kind all the same, in a PRNG order, optionally while an honest peer
            // (connection 2, knows the cookie) authenticates next to it.
            op_open(&mut w, log, st, 0, true, ext).await;
            op_open(&mut w, log, st, 1, true, ext).await;
            op_send(&mut w, log, st, 0, &format!("name:{n0}:pc:{}", rng.below(3))).await;
            op_send(&mut w, log, st, 1, &format!("name:{n1}:pc2:{}", rng.below(3))).await;
            if variant == 5 {
                op_open(&mut w, log, st, 2, true, ext).await;
                good_handshake(&mut w, log, st, rng, 2, true, "good@h").await;
            }
            // wave 2 (inertness of an unauthenticated session, tie of the model's `monitoring` guard): a
            // remotable local actor appears (and joins a group) / disappears while S0 and S1 are alive and
            // still waiting for a digest: the real pid-registry / pg notifications go out, and nothing
            // may reach these sessions (oracle clause effect-before-authentication on the `local` op)
            if rng.chance(2, 3) {
                st.bump("lts_local_unauthenticated");
                op_local(&mut w, log, st, "spawn", Some(2 * rng.below(2))).await;
                if rng.chance(1, 2) {
                    op_local(&mut w, log, st, "term", None).await;
                }
            }
            for _ in 0..rng.range(3, 6) {
                let (k, from) = if rng.chance(1, 2) { (0, 1) } else { (1, 0) };
                match rng.below(5) {
                    0 => op_relay(&mut w, log, st, k, from, "cchal").await,
                    1 => op_relay(&mut w, log, st, k, from, "sack").await,
                    2 => op_relay(&mut w, log, st, k, from, "cguess").await,
                    3 => op_relay(&mut w, log, st, k, k, "cguess").await,
                    _ => op_relay(&mut w, log, st, k, from, "schal:evil3@h:pc3").await,
                };
            }
        }
        _ => {
            // C0 = connection 0, C1 = connection 1, both client-side on the node
            op_open(&mut w, log, st, 0, false, ext).await;
            op_open(&mut w, log, st, 1, false, ext).await;
            op_send(&mut w, log, st, 0, "sstatus:0").await;
            op_send(&mut w, log, st, 0, &format!("schal:{n0}:pc:{}", rng.below(100_000))).await;
            op_send(&mut w, log, st, 1, "sstatus:0").await;
            if variant == 1 {
                op_relay(&mut w, log, st, 1, 0, &format!("schal:{n1}:pc2")).await;
            } else {
                op_send(&mut w, log, st, 1, &format!("schal:{n1}:pc2:{}", rng.below(100_000))).await;
            }
            if variant == 3 && rng.chance(1, 2) {
                // control: echo the node's own ChallengeReply digest back on the same session
                op_relay(&mut w, log, st, 0, 0, "sack").await;
            } else {
                op_relay(&mut w, log, st, 0, 1, "sack").await;
            }
            if rng.chance(1, 2) {
                // a third outbound session of the node authenticates the second one the same way
                op_open(&mut w, log, st, 2, false, ext).await;
                op_send(&mut w, log, st, 2, "sstatus:0").await;
                op_relay(&mut w, log, st, 2, 1, "schal:evil3@h:pc3").await;
                op_relay(&mut w, log, st, 1, 2, "sack").await;
            }
        }
    }
    // whatever the outcome: the peer now tries to use both sessions
    let rem = w.rem_now();
    let target = rem.first().copied().unwrap_or(1);
    let ks: Vec<u64> = w.conns.keys().copied().collect();
    for _ in 0..rng.range(3, 7) {
        let k = *rng.pick(&ks);
        let f = match rng.below(6) {
            0 => format!("cast:{target}"),
            1 => format!("call:{target}:{}", rng.range(1, 9)),
            2 => "spawn:1,2".to_string(),
            3 => "pgjoin:sc:g2:1".to_string(),
            4 => "enum:q@h:zz".to_string(),
            _ => "ready".to_string(),
        };
        op_send(&mut w, log, st, k, &f).await;
    }
    w.shutdown().await;
}


// ------------------------------------------------------------------ C18: legacy / repeated-nonce duplicate dials

/// Which session ACTORS are alive right now (not what `GetSessions` lists): `live` -> `k:0|1,…`.
async fn op_live(w: &mut World, log: &mut Log, st: &mut Stats) {
    quiesce().await;
    quiesce().await;
    let v: Vec<String> = w
        .conns
        .iter()
        .map(|(k, c)| {
            let alive = c.cell.as_ref().map(|c| (c.get_status() as u8) < (ractor::ActorStatus::Stopping as u8)).unwrap_or(false);
            format!("{k}:{}", alive as u8)
        })
        .collect();
    st.bump("lts_live_op");
    log.rec("live", if v.is_empty() { "-".to_string() } else { v.join(",") });
}

/// A legacy peer (wire nonce 0) or a peer repeating its nonce dials the node 2-3 times under ONE name
/// and completes every handshake (it knows the cookie). `check_session` cannot tell the sessions apart
/// (same name, same nonce), so only the NodeServer's own election on `ConnectionAuthenticated` can
/// close the duplicates: afterwards exactly ONE session actor of that peer may be alive on the
/// accepting node — counted on the live actors (`live` op), not on `GetSessions`.
async fn legacy_case(log: &mut Log, st: &mut Stats, rng: &mut Rng, case_no: u64) {
    let short = format!("node{}", case_no % 3);
    set_cookies("", "");
    let mut w = World::new(&short, 800_000 + case_no, false, None).await;
    log.rec(
        format!("node {short} transitive=0 limit={} cookie={} wrong={}", ractor_cluster::DEFAULT_MAX_INBOUND_FRAME_SIZE, cookie(), wrong_cookie()),
        "ok",
    );
    w.spawn_probe(true, Some(("sc", "g1"))).await;
    w.spawn_probe(false, Some(("sc", "g1"))).await;
    let nonce = *rng.pick(&[0u64, 0, 0, 7]);
    let peer = *rng.pick(&["a@host", "zed@h", "Aa@h"]);
    let dials = rng.range(2, 3);
    let good = |c: u32| hex(&reference_digest(&cookie(), c));
    st.bump(&format!("legacy_nonce_{nonce}"));
    for k in 0..dials {
        op_open(&mut w, log, st, k, true, rng.chance(1, 2)).await;
        let sent = op_send(&mut w, log, st, k, &format!("name:{peer}:pc:{nonce}")).await;
        if let Some(c) = last_challenge(&sent, true) {
            op_send(&mut w, log, st, k, &format!("cchal:{}:{}", rng.below(1000), good(c))).await;
            if rng.chance(1, 2) {
                op_send(&mut w, log, st, k, "ready").await;
            }
        }
        op_live(&mut w, log, st).await;
    }
    // the surviving session still works, a dead one does nothing
    let rem = w.rem_now();
    for k in 0..dials {
        op_send(&mut w, log, st, k, &format!("cast:{}", rem.first().copied().unwrap_or(1))).await;
    }
    op_live(&mut w, log, st).await;
    w.shutdown().await;
}

// ------------------------------------------------------------------ wire faults close one session only (C19)

/// A full, correct handshake on connection `k` as a peer that knows the cookie; returns whether
/// the node ended up sending `ready`.
async fn good_handshake(w: &mut World, log: &mut Log, st: &mut Stats, rng: &mut Rng, k: u64, server_side: bool, peer: &str) -> bool {
    let good = |c: u32| hex(&reference_digest(&cookie(), c));
    if server_side {
        let sent = op_send(w, log, st, k, &format!("name:{peer}:pc{k}:{}", rng.below(3))).await;
        if let Some(c) = last_challenge(&sent, true) {
            let s = op_send(w, log, st, k, &format!("cchal:{}:{}", rng.below(1000), good(c))).await;
            return s.iter().any(|f| f == "ready");
        }
        false
    } else {
        op_send(w, log, st, k, "sstatus:0").await;
        let sent = op_send(w, log, st, k, &format!("schal:{peer}:pc{k}:{}", rng.below(1000))).await;
        if let Some(c) = last_challenge(&sent, false) {
            let s = op_send(w, log, st, k, &format!("sack:{}", good(c))).await;
            return s.iter().any(|f| f == "ready");
        }
        false
    }
}

/// One session is hit by a framing fault (undecodable payload, a declared length one byte over
/// the limit / absurdly large without any payload, a truncated frame followed by EOF); it must
/// close, and the node must go on serving: a fresh session authenticates and reaches the probe.
async fn wire_case(log: &mut Log, st: &mut Stats, rng: &mut Rng, case_no: u64) {
    let short = format!("node{}", case_no % 3);
    let default = ractor_cluster::DEFAULT_MAX_INBOUND_FRAME_SIZE;
    // a configured (non-default) limit in three cases out of four
    let limit: Option<u64> = match rng.below(4) {
        0 => None,
        1 => Some(64),
        2 => Some(256),
        _ => Some(4096),
    };
    let max = limit.unwrap_or(default);
    set_cookies("", "");
    let mut w = World::new(&short, 500_000 + case_no, false, limit).await;
    log.rec(format!("node {short} transitive=0 limit={max}"), "ok");
    st.bump(&format!("wire_limit_{max}"));
    let probe = w.spawn_probe(true, Some(("sc", "g1"))).await;
    w.spawn_probe(false, None).await;
    let mut next_k = 0u64;
    let fresh = |n: &mut u64| {
        let k = *n;
        *n += 1;
        k
    };

    // (a) a framing fault before / in the middle of / after the handshake
    let server_side = rng.chance(1, 2);
    let k0 = fresh(&mut next_k);
    op_open(&mut w, log, st, k0, server_side, rng.chance(1, 2)).await;
    let stage = rng.below(3);
    if stage == 2 {
        good_handshake(&mut w, log, st, rng, k0, server_side, "evil@h").await;
    } else if stage == 1 {
        if server_side {
            op_send(&mut w, log, st, k0, "name:evil@h:pc:1").await;
        } else {
            op_send(&mut w, log, st, k0, "sstatus:0").await;
        }
    }
    let fault: Vec<u8> = match rng.below(6) {
        0 => vec![0, 0, 0, 0, 0, 0, 0, 1, 0xff],
        1 => (default + 1).to_be_bytes().to_vec(),
        2 => u64::MAX.to_be_bytes().to_vec(),
        3 => ((isize::MAX as u64) + 1).to_be_bytes().to_vec(),
        4 => {
            let mut v = 3u64.to_be_bytes().to_vec();
            v.extend_from_slice(&[0x0a, 0x05, 0x01]); // length-delimited field running past the end
            v
        }
        _ => {
            let mut v = (default + 1).to_be_bytes().to_vec();
            v.extend_from_slice(&[1, 2, 3, 4, 5, 6, 7, 8, 9]);
            v
        }
    };
    st.bump("wire_fault");
    op_garbage(&mut w, log, st, k0, &fault).await;

    // (b) complete, well-formed frames whose length is just below / at / just above / twice the
    // CONFIGURED limit, on sessions opened through either creation site, server- and client-side
    if limit.is_some() {
        let mut lens = vec![max - 1, max, max + 1, 2 * max];
        rng.shuffle(&mut lens);
        for l in lens.into_iter().take(rng.range(2, 4) as usize) {
            let srv = rng.chance(1, 2);
            let k = fresh(&mut next_k);
            op_open(&mut w, log, st, k, srv, rng.chance(1, 2)).await;
            if !srv {
                op_send(&mut w, log, st, k, "sstatus:0").await;
            }
            if let Some(d) = padded_frame(srv, l as usize, rng.below(3)) {
                st.bump(if l > max { "wire_over_limit_frame" } else { "wire_within_limit_frame" });
                op_send(&mut w, log, st, k, &d).await;
            }
        }
    }
    // (c) headers that only DECLARE a length (no or little payload behind them): over the
    // configured limit the session must close at once, otherwise it waits for the payload
    for _ in 0..rng.range(1, 3) {
        let srv = rng.chance(1, 2);
        let k = fresh(&mut next_k);
        op_open(&mut w, log, st, k, srv, rng.chance(1, 2)).await;
        let declared = *rng.pick(&[max + 1, max, 2 * max, max + 1, default - 1, default, default + 1, 12]);
        let n = *rng.pick(&[0usize, 0, 5]);
        if declared > max {
            st.bump("wire_over_limit_declared");
        }
        op_declare(&mut w, log, st, k, declared, n).await;
    }
    if rng.chance(1, 3) {
        // a truncated frame on yet another session, then EOF
        let k = fresh(&mut next_k);
        op_open(&mut w, log, st, k, true, rng.chance(1, 2)).await;
        op_declare(&mut w, log, st, k, 40, 3).await;
        op_drop(&mut w, log, st, k).await;
    }
    // (d) the node is still in business
    let srv2 = rng.chance(1, 2);
    let k = fresh(&mut next_k);
    op_open(&mut w, log, st, k, srv2, rng.chance(1, 2)).await;
    let ok = good_handshake(&mut w, log, st, rng, k, srv2, "friend@h").await;
    log.rec("survived", (ok as u8).to_string());
    if ok {
        st.bump("wire_node_survived");
        op_send(&mut w, log, st, k, &format!("cast:{probe}")).await;
        op_send(&mut w, log, st, k, &format!("call:{probe}:1")).await;
    }
    w.shutdown().await;
}

// ------------------------------------------------------------------ E-PURE: the allow-list check

fn do_authz(log: &mut Log, st: &mut Stats, adv: &[u64], pid: u64, rem: &[u64]) {
    let (ok, after) = ractor_cluster::node::node_session::verif_hooks::authorized_local_actor(adv, pid);
    st.bump("authz");
    st.bump(if ok { "authz_allowed" } else { "authz_rejected" });
    let mut a = adv.to_vec();
    a.sort_unstable();
    a.dedup();
    log.rec(format!("authz adv={} pid={pid} rem={}", show_pids(&a), show_pids(rem)), format!("{} adv={}", ok as u8, show_pids(&after)));
}

async fn authz_part(log: &mut Log, st: &mut Stats, rng: &mut Rng, cases: u64) {
    let sh: Shared = Arc::new(Mutex::new(Vec::new()));
    let mut cells = Vec::new();
    let mut rem = Vec::new();
    let mut plain = Vec::new();
    for i in 0..4 {
        if i % 2 == 0 {
            let c = Actor::spawn(None, Probe(sh.clone()), ()).await.expect("probe").0.get_cell();
            rem.push(c.get_id().pid());
            cells.push(c);
        } else {
            let c = Actor::spawn(None, Plain(sh.clone()), ()).await.expect("plain").0.get_cell();
            plain.push(c.get_id().pid());
            cells.push(c);
        }
    }
    // one remotable actor that has already exited
    let dead = Actor::spawn(None, Probe(sh.clone()), ()).await.expect("probe").0.get_cell();
    let dead_pid = dead.get_id().pid();
    dead.stop(None);
    quiesce().await;
    let mut universe: Vec<u64> = rem.clone();
    universe.extend(plain.iter().copied());
    universe.push(dead_pid);
    universe.push(999_999);
    // every subset of the universe as allow-list x every pid
    for mask in 0u32..(1 << universe.len()) {
        let adv: Vec<u64> = universe.iter().enumerate().filter(|(i, _)| mask & (1 << i) != 0).map(|(_, p)| *p).collect();
        for pid in &universe {
            do_authz(log, st, &adv, *pid, &rem);
        }
    }
    for _ in 0..cases {
        let n = rng.below(4) as usize;
        let adv: Vec<u64> = (0..n).map(|_| *rng.pick(&universe)).collect();
        do_authz(log, st, &adv, *rng.pick(&universe), &rem);
    }
    for c in cells {
        c.stop(None);
    }
    quiesce().await;
}

// ------------------------------------------------------------------ replay

async fn replay_ops(log: &mut Log, st: &mut Stats, path: &str) {
    let text = std::fs::read_to_string(path).unwrap_or_default();
    let mut world: Option<World> = None;
    let mut case_no = 900_000u64;
    // per connection: the challenge the node issued in the recorded run / in this run
    let mut rec_issued: BTreeMap<u64, u32> = BTreeMap::new();
    let mut cur_issued: BTreeMap<u64, u32> = BTreeMap::new();
    for line in text.lines() {
        let w: Vec<&str> = line.split_whitespace().collect();
        st.bump("replayed_ops");
        match w.as_slice() {
            ["srv", s, m, ..] => do_srv(log, st, s, m),
            ["srvstart", s, ..] => do_srvstart(log, st, s),
            ["cli", s, m, ..] => do_cli(log, st, s, m),
            ["node", name, rest @ ..] => {
                if let Some(w) = world.take() {
                    w.shutdown().await;
                }
                case_no += 1;
                let transitive = rest.iter().any(|x| *x == "transitive=1");
                set_cookies(
                    rest.iter().find_map(|x| x.strip_prefix("cookie=")).unwrap_or(""),
                    rest.iter().find_map(|x| x.strip_prefix("wrong=")).unwrap_or(""),
                );
                let limit = rest.iter().find_map(|x| x.strip_prefix("limit=")).and_then(|x| x.parse::<u64>().ok()).filter(|l| *l != ractor_cluster::DEFAULT_MAX_INBOUND_FRAME_SIZE);
                let mut nw = World::new(name, case_no, transitive, limit).await;
                nw.spawn_probe(true, Some(("sc", "g1"))).await;
                nw.spawn_probe(false, Some(("sc", "g1"))).await;
                world = Some(nw);
                log.rec(line, "ok");
            }
            ["open", k, side, ..] if world.is_some() => {
                let k: u64 = k.parse().unwrap_or(0);
                let ext = !w.iter().any(|x| *x == "path=tcp");
                op_open(world.as_mut().unwrap(), log, st, k, *side == "server", ext).await;
            }
            ["send", k, desc, rest @ ..] if world.is_some() => {
                let k: u64 = k.parse().unwrap_or(0);
                // recorded digests refer to the challenges of the recorded run: when the recorded
                // digest was the right one for the challenge issued then, present the right one for
                // the challenge this run's node issued
                let mut d = desc.to_string();
                if let (Some(rc), Some(cc)) = (rec_issued.get(&k), cur_issued.get(&k)) {
                    let right_then = hex(&reference_digest(&cookie(), *rc));
                    let wrong_then = hex(&digest(&wrong_cookie(), *rc));
                    if d.ends_with(&format!(":{right_then}")) && right_then != wrong_then {
                        d = format!("{}:{}", &d[..d.len() - right_then.len() - 1], hex(&reference_digest(&cookie(), *cc)));
                    } else if d.ends_with(&format!(":{wrong_then}")) {
                        // the intruder's digest (its own cookie, the challenge issued then) -> now
                        d = format!("{}:{}", &d[..d.len() - wrong_then.len() - 1], hex(&digest(&wrong_cookie(), *cc)));
                    }
                }
                let w0 = world.as_mut().unwrap();
                if d.starts_with("nodesessions:") {
                    if let Some(a) = w0.bait.as_ref().and_then(|l| l.local_addr().ok()) {
                        // the advertised address of the recorded run -> this run's listener
                        let parts: Vec<String> = d["nodesessions:".len()..]
                            .split(';')
                            .map(|e| match e.split_once('^') {
                                Some((n, c)) if c.starts_with("127.0.0.1~") => format!("{n}^{}", a.to_string().replace(':', "~")),
                                _ => e.to_string(),
                            })
                            .collect();
                        d = format!("nodesessions:{}", parts.join(";"));
                    }
                }
                let server_side = w0.conns.get(&k).map(|c| c.is_server).unwrap_or(true);
                let sent = op_send(w0, log, st, k, &d).await;
                if let Some(f) = rest.iter().find_map(|x| x.strip_prefix("fresh=")).and_then(|x| x.parse::<u32>().ok()).filter(|x| *x != 0) {
                    rec_issued.insert(k, f);
                }
                if let Some(c) = last_challenge(&sent, server_side) {
                    cur_issued.insert(k, c);
                }
            }
            ["relay", k, from, kind, ..] if world.is_some() => {
                op_relay(world.as_mut().unwrap(), log, st, k.parse().unwrap_or(0), from.parse().unwrap_or(0), kind).await;
            }
            ["batch", k, descs, ..] if world.is_some() => {
                let k: u64 = k.parse().unwrap_or(0);
                let fs: Vec<String> = descs.split('+').map(|x| x.to_string()).collect();
                op_batch(world.as_mut().unwrap(), log, st, k, &fs).await;
            }
            ["local", _k, what, pid, ..] if world.is_some() => {
                // one recorded line per open session: execute once (for the first), skip the rest
                let w0 = world.as_mut().unwrap();
                let first = w0.conns.keys().next().map(|x| x.to_string());
                if first.as_deref() == Some(*_k) {
                    op_local(w0, log, st, what, pid.parse().ok()).await;
                }
            }
            ["garbage", k, h] if world.is_some() => {
                op_garbage(world.as_mut().unwrap(), log, st, k.parse().unwrap_or(0), &unhex(h).unwrap_or_default()).await
            }
            ["drop", k] if world.is_some() => op_drop(world.as_mut().unwrap(), log, st, k.parse().unwrap_or(0)).await,
            ["connects"] if world.is_some() => op_connects(world.as_mut().unwrap(), log, st).await,
            ["live"] if world.is_some() => op_live(world.as_mut().unwrap(), log, st).await,
            ["declare", k, d, n] if world.is_some() => {
                op_declare(world.as_mut().unwrap(), log, st, k.parse().unwrap_or(0), d.parse().unwrap_or(0), n.parse().unwrap_or(0)).await
            }
            ["survived"] => {} // re-derived
            ["killed", ..] => {} // re-derived from what happens in this run
            ["digest", rest @ ..] => {
                let f = |k: &str| rest.iter().find_map(|x| x.strip_prefix(k)).unwrap_or("");
                let c1 = String::from_utf8(unhex(f("c1=")).unwrap_or_default()).unwrap_or_default();
                let c2 = String::from_utf8(unhex(f("c2=")).unwrap_or_default()).unwrap_or_default();
                do_digest(log, st, &c1, &c2, f("ch1=").parse().unwrap_or(0), f("ch2=").parse().unwrap_or(0));
            }
            ["authz", ..] => log.rec(line, "unsupported-in-replay: pids are not stable across runs"),
            _ => log.rec(line, "unsupported-in-replay"),
        }
    }
    if let Some(w) = world.take() {
        w.shutdown().await;
    }
}

async fn run(args: Args) {
    let seed = args.u64("seed", 1);
    let cases = args.u64("cases", 100);
    let out = args.str("out", "/tmp/wire-c17");
    let mut log = Log::create(std::path::Path::new(&out)).unwrap();
    let mut st = Stats::default();
    let mut rng = Rng::new(seed);
    let tcp = args.u64("tcp", 0) == 1;
    TCP.store(tcp, std::sync::atomic::Ordering::Relaxed);
    for f in args.str("replay-ops", "").split(',').filter(|f| !f.is_empty()) {
        replay_ops(&mut log, &mut st, f).await;
    }
    let wire_cases = args.u64("wire-cases", 0);
    let legacy_cases = args.u64("legacy-cases", 0);
    if legacy_cases > 0 {
        // the C18 end-to-end engine for legacy / repeated-nonce duplicate dials
        for c in 0..legacy_cases {
            legacy_case(&mut log, &mut st, &mut rng, c).await;
        }
    } else if tcp && wire_cases == 0 && args.u64("only-replay", 0) != 1 {
        // only the end-to-end engine has a transport
        for c in 0..cases {
            lts_case(&mut log, &mut st, &mut rng, c).await;
            if c % 10 == 3 {
                relay_case(&mut log, &mut st, &mut rng, c).await;
            }
        }
    } else if wire_cases > 0 {
        // the C19 liveness engine: only the wire-fault scenarios
        for c in 0..wire_cases {
            wire_case(&mut log, &mut st, &mut rng, c).await;
        }
    } else if args.u64("only-replay", 0) != 1 {
        fsm_part(&mut log, &mut st, &mut rng, cases);
        digest_part(&mut log, &mut st, &mut rng, cases);
        authz_part(&mut log, &mut st, &mut rng, cases).await;
        for c in 0..cases {
            lts_case(&mut log, &mut st, &mut rng, c).await;
            if c % 10 == 3 {
                relay_case(&mut log, &mut st, &mut rng, c).await;
            }
        }
    }
    if tcp {
        tcpq::stats(&mut st);
    }
    st.write_json(&std::path::Path::new(&out).join("stats.json"));
    let n = log.lines;
    log.finish();
    println!("c17: {n} ops");
}

fn main() {
    let args = Args::parse();
    start_watchdog("c17");
    let rt = tokio::runtime::Builder::new_current_thread().enable_all().start_paused(true).build().unwrap();
    rt.block_on(run(args));
}
