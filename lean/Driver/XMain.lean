import Driver.Common
import Driver.C18
import Driver.C17
import Driver.LeakyBucket
import Driver.C19
import RactorModel.Lemmas.GenElection
import RactorModel.Lemmas.GenAuth
import RactorModel.Lemmas.GenLeakyBucket
import RactorModel.Lemmas.GenFrame
import RactorModel.Lemmas.GenJobMeta

/-!
`xdriver <model> <ops-file> <impl-file>` — differential unit test of the TRANSLATOR
(extract/rs2lean.py): the definitions it generated from the current Rust source
(`RactorModel/Generated/*.lean`) are evaluated on the very inputs the E-PURE harnesses fed to
the real functions and compared with what the real functions answered. A `DIFF` here means the
generated definition does not compute what the code computes (translator or target-spec bug),
independently of the hand-written model. Lines of other op kinds are passed through.

models: `x18` (`elect …` lines of the c18 harness), `x17` (`srv`/`srvstart`/`cli` lines of the
c17 harness), `x15` (`lbnew`/`lbcheck`/`lbbump` lines of the leaky-bucket harness), `x19` (`checklen`,
`encframe`, `const`, `jobopt` lines of the c19 harness).
-/

namespace Driver.X
open Driver

def pass (impl : String) : StepOut := { model := impl }

/-! ### x18 -/
def step18 (_ : Unit) (op impl : String) : Unit × StepOut :=
  match words op with
  | ["elect", this, peer, cs] =>
    match Driver.C18.parseCands? cs with
    | some cs =>
      let g := Generated.Election.elect_sessions this peer (cs.map GenElection.concCand)
      ((), { model := showNats g, nontrivial := decide (cs.length > 1) })
    | none => ((), { model := "bad-op" })
  | _ => ((), pass impl)

/-! ### x17 -/
open Driver.C17 in
def step17 (_ : Unit) (op impl : String) : Unit × StepOut :=
  let ws := words op
  let tbl := parseH ((getField ws "h").getD "-")
  let H : String → Nat → D := fun _ c => Hof tbl () c
  match ws with
  | "srv" :: s :: m :: _ =>
    match parseServer? s, parseMsg? m with
    | some s, some m =>
      let g := Generated.Auth.ServerAuthenticationProcess.next H (freshOf ws) (GenAuth.concServer s) (GenAuth.concMsg m) ""
      ((), { model := showServer (GenAuth.absServer g), nontrivial := true })
    | _, _ => ((), { model := "bad-op" })
  | "srvstart" :: s :: _ =>
    match parseServer? s with
    | some s =>
      let g := Generated.Auth.ServerAuthenticationProcess.start_challenge H (freshOf ws) (GenAuth.concServer s) ""
      ((), { model := showServer (GenAuth.absServer g), nontrivial := true })
    | none => ((), { model := "bad-op" })
  | "cli" :: s :: m :: _ =>
    match parseClient? s, parseMsg? m with
    | some s, some m =>
      let g := Generated.Auth.ClientAuthenticationProcess.next H (freshOf ws) (GenAuth.concClient s) (GenAuth.concMsg m) ""
      ((), { model := showClient (GenAuth.absClient g), nontrivial := true })
    | _, _ => ((), { model := "bad-op" })
  | _ => ((), pass impl)

/-! ### x15 -/
structure St15 where
  lim : Nat := 0
  s : Generated.LeakyBucket.LeakyBucketRateLimiter := ⟨0, 0, 0, 0, none⟩

open Driver.LeakyBucket Generated.LeakyBucket in
def step15 (st : St15) (op impl : String) : St15 × StepOut :=
  let sh := fun (s : LeakyBucketRateLimiter) => showLB (GenLeakyBucket.absLB s)
  match words op with
  | ["lbnew", refill, interval, max, initial, now, lim, _cap] =>
    match refill.toNat?, interval.toNat?, optNat? max, optNat? initial, now.toNat?, lim.toNat? with
    | some refill, some interval, some max, some initial, some now, some lim =>
      let s := LeakyBucketRateLimiter.new lim now refill interval (max.getD MAX_LB_BALANCE) initial
      ({ lim, s }, { model := sh s })
    | _, _, _, _, _, _ => (st, { model := "bad-op" })
  | ["lbcheck", now] =>
    match now.toNat? with
    | some now =>
      let (s', r) := LeakyBucketRateLimiter.check st.lim now st.s
      ({ st with s := s' }, { model := s!"{r} {sh s'}", nontrivial := s'.deadline != st.s.deadline })
    | none => (st, { model := "bad-op" })
  | ["lbbump"] =>
    let s' := LeakyBucketRateLimiter.bump st.lim 0 st.s
    ({ st with s := s' }, { model := sh s', nontrivial := decide (s'.balance < st.s.balance) })
  | _ => (st, pass impl)

/-! ### x19 -/
open Driver.C19 in
def step19 (_ : Unit) (op impl : String) : Unit × StepOut :=
  match words op with
  | ["const", "chunk"] => ((), { model := toString Generated.Frame.FRAME_READ_CHUNK_SIZE })
  | ["const", "defaultmax"] => ((), { model := toString Generated.Frame.DEFAULT_MAX_INBOUND_FRAME_SIZE })
  | ["checklen", len, max] =>
    match len.toNat?, max.toNat? with
    | some len, some max =>
      let m := match Generated.Frame.checked_frame_length len max with
        | .ok n => s!"ok {n}"
        | .error e => s!"err {showErr (GenFrame.absErr e)}"
      ((), { model := m, nontrivial := true })
    | _, _ => ((), { model := "bad-op" })
  | ["encframe", h] =>
    match unhex? h with
    | some p => ((), { model := hex (Generated.Frame.encode_network_message p []), nontrivial := true })
    | none => ((), { model := "bad-op" })
  | ["jobopt", h] =>
    match unhex? h with
    | some bs =>
      -- a default value the wire can never produce marks the `Default::default()` path
      let dflt : Generated.JobMeta.JobOptions := ⟨2 ^ 64, none⟩
      let o := Generated.JobMeta.JobOptions.from_bytes dflt bs
      ((), { model := if o.submit_time == 2 ^ 64 then "default" else s!"ok {o.submit_time} {showTtl o.ttl}",
             nontrivial := true })
    | none => ((), { model := "bad-op" })
  | _ => ((), pass impl)

end Driver.X

def main (args : List String) : IO UInt32 := do
  match args with
  | [model, opsPath, implPath] =>
    let ops ← Driver.readLines opsPath
    let impl ← Driver.readLines implPath
    let t ← match model with
      | "x18" => Driver.replay () Driver.X.step18 ops impl
      | "x17" => Driver.replay () Driver.X.step17 ops impl
      | "x15" => Driver.replay ({} : Driver.X.St15) Driver.X.step15 ops impl
      | "x19" => Driver.replay () Driver.X.step19 ops impl
      | _ => do IO.eprintln s!"unknown model {model}"; return 2
    return (if t.diffs == 0 then 0 else 1)
  | _ =>
    IO.eprintln "usage: xdriver <model> <ops-file> <impl-file>"
    return 2
