/-!
# Model `ExitRace` — the exit sequence racing with shutdown waiters (C06)

Small-step model of
* `ActorCell::set_status` (`actor_cell.rs`): `fetch_max`, the registry/pg cleanup block elected
  by the previous value, the notify block elected by the previous value;
* `ActorProperties::notify_stop_listener` (`notify_waiters` then `notify_one`);
* `ActorLifecycleGuard::cleanup` (`actor.rs`) preceded by the processing loop's own
  `set_status(Stopping)` and `post_stop`;
* `ActorProperties::wait`: create `Notified`, then read the status, then await — three separate
  steps: the window between the status read and the first poll of `Notified` (in which the exiter
  may publish `Stopped`, `notify_waiters` and `notify_one`) is part of the schedule space.

One model step = one schedule point `crate::verif::point("…")` (names next to the program
counters). `tokio::sync::Notify` is modelled by its documented contract: `notified()` snapshots
the `notify_waiters` generation; the first poll completes if the generation moved or a permit is
stored, otherwise registers; `notify_waiters` wakes every registered waiter and advances the
generation; `notify_one` wakes one registered waiter or stores one permit; dropping a `Notified`
that was woken by `notify_one` passes the wake-up on.

Threads: the exiter (the actor's own task), any number of other `set_status` callers
("setters"), any number of waiters; a waiter can be abandoned (timeout) at any step.
Core Lean only; imports nothing.
-/

namespace ExitRace

def stDraining : Nat := 4
def stStopping : Nat := 5
def stStopped : Nat := 6

/-- What the exit sequence has done so far (monotone ghost flags; what a waiter's snapshot sees). -/
structure Flags where
  unregPid : Bool := false
  unregName : Bool := false
  pgDemon : Bool := false
  pgLeft : Bool := false
  postStop : Bool := false
  terminated : Bool := false
  supNotified : Bool := false
  unlinked : Bool := false
  deriving DecidableEq, Repr, Inhabited

/-- Who holds the actor's registered name: the exiting actor itself, nobody, or a successor that
registered the freed name while the exit was still in progress. `registry::unregister(name)`
removes the entry whoever holds it. -/
inductive NameHolder where
  | self | none | succ
  deriving DecidableEq, Repr, Inhabited

/-- Program counter inside one call `ActorCell::set_status(s)`; `prev` = value returned by `fetch_max`. -/
inductive SPc where
  /-- `status.publish` : before `fetch_max(s)` -/
  | publish (s : Nat)
  /-- `status.unreg_pid` -/
  | unregPid (s prev : Nat)
  /-- `status.unreg_name` -/
  | unregName (s prev : Nat)
  /-- `status.pg_demonitor` -/
  | pgDemon (s prev : Nat)
  /-- `status.pg_leave` -/
  | pgLeave (s prev : Nat)
  /-- `status.notify` : before `notify_stop_listener()` -/
  | statusNotify
  /-- `notify.waiters` : before `notify_waiters()` -/
  | notifyWaiters
  /-- `notify.one` : before `notify_one()` -/
  | notifyOne
  deriving DecidableEq, Repr, Inhabited

/-- How a registered waiter was woken. -/
inductive Woken where
  | no | all | one
  deriving DecidableEq, Repr, Inhabited

inductive WPc where
  /-- before `self.wait_handler.notified()` (harness point `wait.poll`, first poll) -/
  | start
  /-- `wait.created` : `Notified` exists (generation `snap`), status not read yet -/
  | created (snap : Nat)
  /-- `wait.checked` : the status has been read and was not `Stopped`; `notified.await` has not
  been polled yet -/
  | checked (snap : Nat)
  /-- polled once, registered in the waiter list (harness point `wait.poll`) -/
  | registered
  /-- `wait()` returned; `ok` = at that moment status was `Stopped` and the cleanup was complete -/
  | returned (ok : Bool)
  /-- the future was dropped (timeout) -/
  | abandoned
  deriving DecidableEq, Repr, Inhabited

structure Waiter where
  pc : WPc := .start
  woken : Woken := .no
  deriving DecidableEq, Repr, Inhabited

/-- The exit sequence in source order. -/
inductive EPc where
  /-- `processing_loop`: `set_status(Stopping)` -/
  | set1 (c : SPc)
  /-- inside `post_stop` (harness point `post_stop`); skipped when killed / failed -/
  | postStop
  /-- `cleanup`: `set_status(Stopping)` -/
  | set2 (c : SPc)
  /-- `cleanup.terminate` -/
  | terminate
  /-- `cleanup.notify` -/
  | notifySup
  /-- `cleanup.unlink` -/
  | unlink
  /-- `cleanup.stopped` -/
  | stopped
  /-- `cleanup`: `set_status(Stopped)` -/
  | set3 (c : SPc)
  /-- late / repeated `set_status` calls by the same task (e.g. `spawn_linked_remote`'s) -/
  | late (c : SPc) (rest : List Nat)
  | done
  deriving DecidableEq, Repr, Inhabited

structure Exiter where
  pc : EPc := .set1 (.publish stStopping)
  /-- `post_stop` runs (graceful exit) -/
  hasPostStop : Bool := true
  lateCalls : List Nat := []
  /-- `ActorLifecycleGuard::armed`: cleared only after the final `set_status(Stopped)` -/
  armed : Bool := true
  /-- ghost: a statement of `cleanup` has panicked (a second panic while unwinding would abort) -/
  unwound : Bool := false
  deriving DecidableEq, Repr, Inhabited

/-- Another thread calling `set_status(s)` for each `s` of its list. -/
structure Setter where
  call : Option SPc := none
  rest : List Nat := []
  deriving DecidableEq, Repr, Inhabited

structure Sh where
  status : Nat := 2
  /-- `Notify`: number of `notify_waiters` calls -/
  gen : Nat := 0
  /-- `Notify`: stored permit -/
  permit : Bool := false
  flags : Flags := {}
  /-- the registry entry of the actor's name -/
  name : NameHolder := .self
  /-- ghost: how often the cleanup block / the notify block of `set_status` was elected -/
  cleanupRuns : Nat := 0
  notifyRuns : Nat := 0
  /-- terminal supervision events handed to the supervisor (`cleanup.notify` executed): the event of
  `lifecycle.finish(evt)`, and after a panic in a later statement of `cleanup` the guard's `Drop` sends
  a second one ("actor_task_cancelled") when it runs `cleanup` again -/
  supEvents : Nat := 0
  /-- ghost: a `Kill` was accepted by the signal port before the processing loop reached `post_stop`:
  it wins the first poll of `ports.run_with_signal(post_stop)` (biased `select!`), `handle_signal`
  terminates the children (an early execution of `cleanup.terminate`'s work) and the exit continues
  as a killed one — `post_stop` never runs (`Exiter.hasPostStop` is cleared by the `kill` step) -/
  killPending : Bool := false
  deriving DecidableEq, Repr, Inhabited

structure G where
  sh : Sh := {}
  exiter : Exiter := {}
  setters : List Setter := []
  waiters : List Waiter := []
  /-- threads calling `drain()`; `true` = the `fetch_update` (point `drain.status`) is still ahead -/
  drainers : List Bool := []
  deriving Repr, Inhabited

inductive Tid where
  | e
  | s (i : Nat)
  | w (i : Nat)
  | abandon (i : Nat)
  /-- drainer `i`: `drain()`'s `fetch_update(|f| if f < Stopping { Some(Draining) } else { None })` -/
  | d (i : Nat)
  /-- a successor actor registers the name, if it is free -/
  | succ
  /-- the statement of `cleanup` the exiter is about to execute panics; unwinding drops the
  lifecycle guard, whose `Drop` runs `cleanup` again from the top because it is still armed -/
  | unwind
  /-- a `kill()` / `kill_and_wait()` is accepted by the signal port (whether the port is still open is
  the business of `Model/WaitForms.lean`). It matters only while the processing loop has not reached
  `post_stop` (`EPc.set1 _`): a graceful exit then turns into a killed one. Once the actor is inside
  `post_stop` (one step here: user code that returns) or past it, the signal is never looked at. -/
  | kill
  deriving DecidableEq, Repr, Inhabited

/-- every cleanup step that precedes `publish(Stopped)` is done -/
def Flags.complete (f : Flags) (needPostStop : Bool) : Bool :=
  f.unregPid && f.unregName && f.pgDemon && f.pgLeft && f.terminated && f.supNotified && f.unlinked
    && (!needPostStop || f.postStop)

/-! ### `Notify` operations on the waiter list -/

def Waiter.parked (w : Waiter) : Bool := w.pc == .registered && w.woken == .no

/-- `notify_waiters`: wake every registered waiter. -/
def wakeAll (ws : List Waiter) : List Waiter :=
  ws.map (fun w => if w.parked then { w with woken := .all } else w)

/-- `notify_one` / forwarding: wake the first registered waiter, if any. -/
def wakeOne : List Waiter → Option (List Waiter)
  | [] => none
  | w :: ws =>
    if w.parked then some ({ w with woken := .one } :: ws)
    else (wakeOne ws).map (w :: ·)

def notifyOne (sh : Sh) (ws : List Waiter) : Sh × List Waiter :=
  match wakeOne ws with
  | some ws' => (sh, ws')
  | none => ({ sh with permit := true }, ws)

/-! ### One call of `set_status` -/

/-- after the cleanup block (or when it was not elected): the notify block, or return -/
def afterCleanup (s prev : Nat) : Option SPc :=
  if s == stStopped && prev < stStopped then some .statusNotify else none

/-- One step inside `set_status`; `none` = the call returned. The ghost counters are bumped
when the election happens, i.e. at the `fetch_max` that returns `prev`. -/
def stepSet (sh : Sh) (ws : List Waiter) : SPc → Sh × List Waiter × Option SPc
  | .publish s =>
    let prev := sh.status
    let sh := { sh with status := max sh.status s,
                        notifyRuns := sh.notifyRuns + (if s == stStopped && prev < stStopped then 1 else 0) }
    if s ≥ stStopping && prev < stStopping then
      ({ sh with cleanupRuns := sh.cleanupRuns + 1 }, ws, some (.unregPid s prev))
    else (sh, ws, afterCleanup s prev)
  | .unregPid s prev => ({ sh with flags := { sh.flags with unregPid := true } }, ws, some (.unregName s prev))
  | .unregName s prev =>
    ({ sh with flags := { sh.flags with unregName := true }, name := .none }, ws, some (.pgDemon s prev))
  | .pgDemon s prev => ({ sh with flags := { sh.flags with pgDemon := true } }, ws, some (.pgLeave s prev))
  | .pgLeave s prev => ({ sh with flags := { sh.flags with pgLeft := true } }, ws, afterCleanup s prev)
  | .statusNotify => (sh, ws, some .notifyWaiters)
  | .notifyWaiters => ({ sh with gen := sh.gen + 1 }, wakeAll ws, some .notifyOne)
  | .notifyOne =>
    let (sh, ws) := notifyOne sh ws
    (sh, ws, none)

/-! ### The exiter -/

def lateEntry : List Nat → EPc
  | [] => .done
  | s :: rest => .late (.publish (min s stStopped)) rest   -- any discriminant ≥ 6 is `Stopped`

def stepExiter (sh : Sh) (ws : List Waiter) (ex : Exiter) : Sh × List Waiter × Exiter :=
  match ex.pc with
  | .set1 c =>
    match stepSet sh ws c with
    | (sh, ws, some c') => (sh, ws, { ex with pc := .set1 c' })
    | (sh, ws, none) =>
      (sh, ws, { ex with pc := if ex.hasPostStop then .postStop else .set2 (.publish stStopping) })
  | .postStop =>
    ({ sh with flags := { sh.flags with postStop := true } }, ws, { ex with pc := .set2 (.publish stStopping) })
  | .set2 c =>
    match stepSet sh ws c with
    | (sh, ws, some c') => (sh, ws, { ex with pc := .set2 c' })
    | (sh, ws, none) => (sh, ws, { ex with pc := .terminate })
  | .terminate => ({ sh with flags := { sh.flags with terminated := true } }, ws, { ex with pc := .notifySup })
  | .notifySup =>
    ({ sh with flags := { sh.flags with supNotified := true }, supEvents := sh.supEvents + 1 }, ws, { ex with pc := .unlink })
  | .unlink => ({ sh with flags := { sh.flags with unlinked := true } }, ws, { ex with pc := .stopped })
  | .stopped => (sh, ws, { ex with pc := .set3 (.publish stStopped) })
  | .set3 c =>
    match stepSet sh ws c with
    | (sh, ws, some c') => (sh, ws, { ex with pc := .set3 c' })
    | (sh, ws, none) => (sh, ws, { ex with pc := lateEntry ex.lateCalls, armed := false })
  | .late c rest =>
    match stepSet sh ws c with
    | (sh, ws, some c') => (sh, ws, { ex with pc := .late c' rest })
    | (sh, ws, none) => (sh, ws, { ex with pc := lateEntry rest })
  | .done => (sh, ws, ex)

def stepSetter (sh : Sh) (ws : List Waiter) (t : Setter) : Sh × List Waiter × Setter :=
  match t.call with
  | some c =>
    let (sh, ws, c') := stepSet sh ws c
    (sh, ws, { t with call := c' })
  | none =>
    match t.rest with
    | [] => (sh, ws, t)
    | s :: rest =>
      -- entering the call and its first point are one step: the thread is parked at `status.publish`
      let (sh, ws, c') := stepSet sh ws (.publish s)
      (sh, ws, { call := c', rest := rest })

/-! ### Waiters -/

def stepWaiter (sh : Sh) (fl : Bool) (w : Waiter) : Sh × Waiter :=
  match w.pc with
  | .start => (sh, { w with pc := .created sh.gen })
  | .created snap =>
    -- `if self.get_status() != Stopped { … }`: the status load alone
    if sh.status == stStopped then (sh, { w with pc := .returned fl })
    else (sh, { w with pc := .checked snap })
  | .checked snap =>
    -- first poll of `notified.await`: completes if the `notify_waiters` generation moved since
    -- `notified()` or by consuming the stored permit; registers otherwise
    if sh.gen != snap then (sh, { w with pc := .returned fl })
    else if sh.permit then ({ sh with permit := false }, { w with pc := .returned fl })
    else (sh, { w with pc := .registered })
  | .registered =>
    if w.woken != .no then (sh, { w with pc := .returned fl }) else (sh, w)
  | .returned _ => (sh, w)
  | .abandoned => (sh, w)

/-- What a waiter's snapshot must show (the run-time oracle of C06's safety clause: the driver
evaluates this same function on the implementation's snapshot). -/
def snapshotOk (status : Nat) (f : Flags) (needPostStop : Bool) : Bool :=
  status == stStopped && f.complete needPostStop

/-- `ok` flag a waiter returning now would record. -/
def okNow (g : G) : Bool := snapshotOk g.sh.status g.sh.flags g.exiter.hasPostStop

def step (g : G) : Tid → G
  | .e =>
    let (sh, ws, ex) := stepExiter g.sh g.waiters g.exiter
    { g with sh := sh, waiters := ws, exiter := ex }
  | .s i =>
    match g.setters[i]? with
    | none => g
    | some t =>
      let (sh, ws, t') := stepSetter g.sh g.waiters t
      { g with sh := sh, waiters := ws, setters := g.setters.set i t' }
  | .w i =>
    match g.waiters[i]? with
    | none => g
    | some w =>
      let (sh, w') := stepWaiter g.sh (okNow g) w
      { g with sh := sh, waiters := g.waiters.set i w' }
  | .abandon i =>
    match g.waiters[i]? with
    | none => g
    | some w =>
      match w.pc with
      | .returned _ => g
      | .abandoned => g
      | _ =>
        let ws := g.waiters.set i { w with pc := .abandoned }
        -- a `Notified` woken by `notify_one` passes the wake-up on when dropped
        if w.pc == .registered && w.woken == .one then
          let (sh, ws) := notifyOne g.sh ws
          { g with sh := sh, waiters := ws }
        else { g with waiters := ws }
  | .d i =>
    match g.drainers[i]? with
    | some true =>
      { g with sh := { g.sh with status := if g.sh.status < stStopping then stDraining else g.sh.status },
               drainers := g.drainers.set i false }
    | _ => g
  | .succ =>
    match g.sh.name with
    | .none => { g with sh := { g.sh with name := .succ } }
    | _ => g
  | .unwind =>
    if g.exiter.unwound then g else
    match g.exiter.pc with
    | .terminate | .notifySup | .unlink =>
      if g.exiter.armed then
        { g with exiter := { g.exiter with pc := .set2 (.publish stStopping), unwound := true } }
      else { g with exiter := { g.exiter with pc := .done, unwound := true } }
    | _ => g
  | .kill =>
    match g.exiter.pc with
    | .set1 _ => { g with sh := { g.sh with killPending := g.sh.killPending || g.exiter.hasPostStop },
                          exiter := { g.exiter with hasPostStop := false } }
    | _ => g

def run (g : G) (sched : List Tid) : G := sched.foldl step g

/-- Initial state: actor `Running`, exit not started; `n` waiters; setters with their values. -/
def init (hasPostStop : Bool) (lateCalls : List Nat) (setters : List (List Nat)) (n : Nat)
    (drainers : Nat := 0) : G :=
  { sh := {}, exiter := { hasPostStop := hasPostStop, lateCalls := lateCalls },
    setters := setters.map (fun l => { call := none, rest := l }),
    waiters := List.replicate n {}, drainers := List.replicate drainers true }

/-! ### Observation helpers -/

def SPc.point : SPc → String
  | .publish _ => "status.publish" | .unregPid _ _ => "status.unreg_pid"
  | .unregName _ _ => "status.unreg_name" | .pgDemon _ _ => "status.pg_demonitor"
  | .pgLeave _ _ => "status.pg_leave" | .statusNotify => "status.notify"
  | .notifyWaiters => "notify.waiters" | .notifyOne => "notify.one"

def EPc.point : EPc → String
  | .set1 c | .set2 c | .set3 c | .late c _ => c.point
  | .postStop => "post_stop" | .terminate => "cleanup.terminate" | .notifySup => "cleanup.notify"
  | .unlink => "cleanup.unlink" | .stopped => "cleanup.stopped" | .done => "done"

def WPc.point : WPc → String
  | .start => "wait.poll" | .created _ => "wait.created" | .checked _ => "wait.checked"
  | .registered => "wait.poll"
  | .returned _ => "done" | .abandoned => "done"

/-- The exiter has executed `notify_one` of the final `set_status(Stopped)`. -/
def Exiter.finished (ex : Exiter) : Bool :=
  match ex.pc with
  | .late _ _ | .done => true
  | _ => false

/-- Steps a waiter still needs: the measure of the no-lost-wake-up theorem. -/
def WPc.rank : WPc → Nat
  | .start => 4 | .created _ => 3 | .checked _ => 2 | .registered => 1 | .returned _ => 0 | .abandoned => 0

/-- all setters only publish values below `Stopping` (what the code base does: `Starting`,
`Running`; `drain` publishes `Draining` by its own `fetch_update`) -/
def settersBelowStopping (g : G) : Bool :=
  g.setters.all (fun t => t.rest.all (· < stStopping) &&
    (match t.call with
     | none => true
     | some (.publish s) => s < stStopping
     | some _ => false))

/-- the other `set_status` callers publish values below `Stopping` (`Starting`, `Running`; this is
what the code base does — only the actor's own task publishes `Stopping`/`Stopped`) -/
def settersOk (setters : List (List Nat)) : Bool := setters.all (·.all (· < stStopping))

/-- A state from which the exit has not started: the exiter is about to publish `Stopping`, the
status is below `Stopping` (`Running`, or `Draining` after a `drain()`), nothing was notified yet,
every waiter is fresh. The cleanup flags are arbitrary (a kill signal, for instance, terminates the
children before the exit sequence starts). -/
structure Initial (g : G) : Prop where
  exiter : g.exiter.pc = .set1 (.publish stStopping)
  armed : g.exiter.armed = true
  name : g.sh.name = .self
  status : g.sh.status < stStopping
  gen : g.sh.gen = 0
  permit : g.sh.permit = false
  runs : g.sh.cleanupRuns = 0 ∧ g.sh.notifyRuns = 0
  waiters : ∀ w ∈ g.waiters, w = {}
  setters : settersBelowStopping g = true

end ExitRace
