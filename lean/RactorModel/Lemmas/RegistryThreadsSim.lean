import RactorModel.Lemmas.RegistryThreads

/-! `Reg2` (one program counter per actor) is `Reg3` restricted to one `set_status` caller per cell: a simulation,
and `Reg2.Ordered` on the `Reg2` side is `Reg3.Disc` on the image. -/

namespace Reg3
open Reg2 (Stmt blockProg upd stopping stopped upd_apply)

/-- `Reg2` ops as `Reg3` ops of thread 0 (the pid monitors are not part of `Reg3`) -/
def ofOp : Reg2.Op → Option Op
  | .new a name => some (.new a name)
  | .newRemote a name => some (.spawnRemote a name)
  | .regName a => some (.regName a)
  | .regPid a => some (.regPid a)
  | .regPidFail a => some (.regPidFail a)
  | .rollback a => some (.rollback a)
  | .publish a st => some (.publish a 0 st)
  | .bstep a => some (.bstep a 0)
  | .monitor _ => none
  | .demonitor _ => none

def ofOps (ops : List Reg2.Op) : List Op := ops.filterMap ofOp

def pcRel (pc : Reg2.Pc) (c : Cell) (t : TPc) : Prop :=
  match pc with
  | .none => c.cons = .none ∧ c.born = false ∧ t = .idle
  | .consName => c.cons = .name ∧ c.born = false ∧ t = .idle
  | .consPid => c.cons = .pid ∧ c.born = false ∧ t = .idle
  | .consRollback => c.cons = .rollback ∧ c.born = false ∧ t = .idle
  | .failed => c.cons = .failed ∧ c.born = false ∧ t = .idle
  | .live => c.cons = .done ∧ c.born = true ∧ t = .idle
  | .blk rest st => c.cons = .done ∧ c.born = true ∧ t = .blk rest st

structure Sim (s2 : Reg2.State) (s3 : State) : Prop where
  names : ∀ n, s3.names n = s2.names n
  pids : ∀ a, s3.pids a = s2.pids a
  cells : ∀ a, (s3.cell a).name = (s2.act a).name ∧ (s3.cell a).remote = (s2.act a).remote ∧
    (s3.cell a).status = (s2.act a).status ∧ pcRel (s2.act a).pc (s3.cell a) (s3.thr a 0)

def stepO (s : State) : Option Op → State
  | some o => step s o
  | none => s

macro "sim_auto" : tactic =>
  `(tactic| ((try simp only [Reg2.setPc, upd_apply, upd2_apply] at *)
             grind [pcRel, stopping, stopped]))

theorem Sim.step {s2 : Reg2.State} {s3 : State} (h : Sim s2 s3) (op : Reg2.Op) :
    Sim (Reg2.step s2 op) (stepO s3 (ofOp op)) := by
  have hn := h.names; have hp := h.pids; have hc := h.cells
  cases op with
  | monitor m => simp only [Reg2.step, ofOp, stepO]; exact ⟨hn, hp, hc⟩
  | demonitor m => simp only [Reg2.step, ofOp, stepO]; exact ⟨hn, hp, hc⟩
  | new a name =>
    obtain ⟨e1, e2, e3, e4⟩ := hc a
    simp only [Reg2.step, ofOp, stepO, Reg3.step]
    cases hpc : (s2.act a).pc <;> simp only [hpc, pcRel] at e4 <;> obtain ⟨e4, e5, e6⟩ := e4 <;>
      simp [e4, e5] <;> refine ⟨?_, ?_, ?_⟩ <;> intros <;> sim_auto
  | newRemote a name =>
    obtain ⟨e1, e2, e3, e4⟩ := hc a
    simp only [Reg2.step, ofOp, stepO, Reg3.step]
    cases hpc : (s2.act a).pc <;> simp only [hpc, pcRel] at e4 <;> obtain ⟨e4, e5, e6⟩ := e4 <;>
      simp [e4, e5] <;> refine ⟨?_, ?_, ?_⟩ <;> intros <;> sim_auto
  | regPid a =>
    obtain ⟨e1, e2, e3, e4⟩ := hc a
    simp only [Reg2.step, ofOp, stepO, Reg3.step]
    cases hpc : (s2.act a).pc <;> simp only [hpc, pcRel] at e4 <;> obtain ⟨e4, e5, e6⟩ := e4 <;>
      simp [e4, e5] <;> refine ⟨?_, ?_, ?_⟩ <;> intros <;> sim_auto
  | regPidFail a =>
    obtain ⟨e1, e2, e3, e4⟩ := hc a
    simp only [Reg2.step, ofOp, stepO, Reg3.step]
    cases hpc : (s2.act a).pc <;> simp only [hpc, pcRel] at e4 <;> obtain ⟨e4, e5, e6⟩ := e4 <;>
      simp [e4, e5, e1] <;> refine ⟨?_, ?_, ?_⟩ <;> intros <;> sim_auto
  | regName a =>
    obtain ⟨e1, e2, e3, e4⟩ := hc a
    have hna := hn
    simp only [Reg2.step, ofOp, stepO, Reg3.step]
    cases hpc : (s2.act a).pc <;> simp only [hpc, pcRel] at e4 <;> obtain ⟨e4, e5, e6⟩ := e4 <;>
      cases hnm : (s2.act a).name <;> simp [e4, e5, e1, hnm, hn] <;> (try split) <;>
      refine ⟨?_, ?_, ?_⟩ <;> intros <;> sim_auto
  | rollback a =>
    obtain ⟨e1, e2, e3, e4⟩ := hc a
    simp only [Reg2.step, ofOp, stepO, Reg3.step]
    cases hpc : (s2.act a).pc <;> simp only [hpc, pcRel] at e4 <;> obtain ⟨e4, e5, e6⟩ := e4 <;>
      cases hnm : (s2.act a).name <;> simp [e4, e5, e1, hnm] <;>
      refine ⟨?_, ?_, ?_⟩ <;> intros <;> sim_auto
  | publish a st =>
    obtain ⟨e1, e2, e3, e4⟩ := hc a
    simp only [Reg2.step, ofOp, stepO, Reg3.step]
    cases hpc : (s2.act a).pc <;> simp only [hpc, pcRel] at e4 <;> obtain ⟨e4, e5, e6⟩ := e4 <;>
      simp [e4, e5, e6, e3] <;> (try split) <;> (try split) <;>
      refine ⟨?_, ?_, ?_⟩ <;> intros <;> sim_auto
  | bstep a =>
    obtain ⟨e1, e2, e3, e4⟩ := hc a
    simp only [Reg2.step, ofOp, stepO, Reg3.step]
    cases hpc : (s2.act a).pc with
    | blk rest st =>
      simp only [hpc, pcRel] at e4
      obtain ⟨e4, e5, e6⟩ := e4
      cases rest with
      | nil => simp [e6]; refine ⟨?_, ?_, ?_⟩ <;> intros <;> sim_auto
      | cons stmt rest =>
        have hpa := hp a
        cases stmt with
        | demonitor => simp [e6, Reg2.exec, exec]; refine ⟨?_, ?_, ?_⟩ <;> intros <;> sim_auto
        | unregPid =>
          simp only [e6, Reg2.exec, exec, e2]
          cases hr : (s2.act a).remote <;> cases hq : s2.pids a <;> simp <;>
            refine ⟨?_, ?_, ?_⟩ <;> intros <;> sim_auto
        | unregName =>
          simp only [e6, Reg2.exec, exec, e2, e1]
          cases hnm : (s2.act a).name <;> cases hr : (s2.act a).remote <;> simp <;>
            refine ⟨?_, ?_, ?_⟩ <;> intros <;> sim_auto
    | _ =>
      simp only [hpc, pcRel] at e4
      obtain ⟨e4, e5, e6⟩ := e4
      simp [e6]
      exact ⟨hn, hp, hc⟩

theorem Sim.init : Sim Reg2.init init :=
  ⟨fun _ => rfl, fun _ => rfl, fun _ => by simp [Reg2.init, Reg3.init, pcRel]⟩

theorem Sim.run {s2 : Reg2.State} {s3 : State} (h : Sim s2 s3) (ops : List Reg2.Op) :
    Sim (Reg2.run s2 ops) (run s3 (ofOps ops)) := by
  induction ops generalizing s2 s3 with
  | nil => exact h
  | cons op ops ih =>
    have h' := h.step op
    simp only [Reg2.run, List.foldl_cons] at ih ⊢
    cases ho : ofOp op with
    | none =>
      rw [ho] at h'
      simpa [ofOps, List.filterMap_cons, ho, stepO] using ih h'
    | some o =>
      rw [ho] at h'
      have := ih h'
      simp only [ofOps, List.filterMap_cons, ho, stepO, Reg3.run, List.foldl_cons] at this ⊢
      exact this

theorem ofOps_single (ops : List Reg2.Op) : (ofOps ops).all single = true := by
  induction ops with
  | nil => rfl
  | cons op ops ih =>
    cases op <;> simp_all [ofOps, List.filterMap_cons, ofOp, single]

/-- one caller: what has returned is what has been published -/
def JInv (s : State) : Prop :=
  ∀ a, (s.thr a 0 = .idle → s.done a 0 = (s.cell a).status) ∧
       (∀ rest st, s.thr a 0 = .blk rest st → max (s.done a 0) st = (s.cell a).status)

theorem JInv.init : JInv init := by intro a; simp [Reg3.init]

theorem JInv.step {s : State} (h : TInv s) (hj : JInv s) (op : Op) (hs : single op = true) : JInv (step s op) := by
  have hu := h.unborn; have he := h.elected; have hb := h.blkEl
  unfold JInv at hj ⊢
  cases op with
  | new a name => simp only [Reg3.step]; split <;> first | exact hj | (intros; thr_auto)
  | regName a => simp only [Reg3.step]; split <;> (try split) <;> first | exact hj | (intros; thr_auto)
  | regPid a => simp only [Reg3.step]; split <;> first | exact hj | (intros; thr_auto)
  | regPidFail a => simp only [Reg3.step]; split <;> first | exact hj | (intros; thr_auto)
  | rollback a => simp only [Reg3.step]; split <;> first | exact hj | (intros; thr_auto)
  | spawnRemote a name => simp only [Reg3.step]; split <;> first | exact hj | (intros; thr_auto)
  | publish a t st =>
    simp only [single, beq_iff_eq] at hs
    subst hs
    simp only [Reg3.step]; split
    · split <;> intros <;> thr_auto
    · exact hj
  | bstep a t =>
    simp only [single, beq_iff_eq] at hs
    subst hs
    simp only [Reg3.step]
    split
    · next stmt rest st hpc =>
      cases stmt with
      | demonitor => simp only [exec]; intros; thr_auto
      | unregPid => simp only [exec]; split <;> intros <;> thr_auto
      | unregName => simp only [exec]; split <;> (try split) <;> intros <;> thr_auto
    · intros; thr_auto
    · exact hj

/-- `Reg2.ordered` on the `Reg2` side is `Reg3.disc` on the image -/
theorem disc_of_ordered {s2 : Reg2.State} {s3 : State} (h : Sim s2 s3) (hj : JInv s3) (hsi : SInv s3)
    (op : Reg2.Op) (ho : Reg2.ordered s2 op = true) : ∀ o, ofOp op = some o → disc s3 o = true := by
  intro o hoo
  cases op with
  | publish a st =>
    simp only [ofOp, Option.some.injEq] at hoo
    subst hoo
    simp only [Reg2.ordered, decide_eq_true_eq] at ho
    simp only [disc, Bool.or_eq_true, decide_eq_true_eq, Bool.not_eq_eq_eq_not, Bool.not_true]
    by_cases hi : s3.thr a 0 = .idle
    · right
      intro _
      refine ⟨?_, fun h6 => ?_⟩
      · cases hel : (s3.cell a).el with
        | none => exact .inl rfl
        | some t' => right; rw [hsi a t' hel]
      · rw [(hj a).1 hi, (h.cells a).2.2.1]; exact ho h6
    · exact .inl (.inr hi)
  | new a name => simp only [ofOp, Option.some.injEq] at hoo; subst hoo; rfl
  | newRemote a name => simp only [ofOp, Option.some.injEq] at hoo; subst hoo; rfl
  | regName a => simp only [ofOp, Option.some.injEq] at hoo; subst hoo; rfl
  | regPid a => simp only [ofOp, Option.some.injEq] at hoo; subst hoo; rfl
  | regPidFail a => simp only [ofOp, Option.some.injEq] at hoo; subst hoo; rfl
  | rollback a => simp only [ofOp, Option.some.injEq] at hoo; subst hoo; rfl
  | bstep a => simp only [ofOp, Option.some.injEq] at hoo; subst hoo; rfl
  | monitor m => simp [ofOp] at hoo
  | demonitor m => simp [ofOp] at hoo

theorem ofOp_single (op : Reg2.Op) (o : Op) (h : ofOp op = some o) : single o = true := by
  cases op <;> simp [ofOp] at h <;> subst h <;> rfl

theorem disc_of_ordered_run {s2 : Reg2.State} {s3 : State} (h : Sim s2 s3) (ht : TInv s3) (hj : JInv s3)
    (hsi : SInv s3) (ops : List Reg2.Op) (ho : Reg2.Ordered s2 ops = true) : Disc s3 (ofOps ops) = true := by
  induction ops generalizing s2 s3 with
  | nil => rfl
  | cons op ops ih =>
    simp only [Reg2.Ordered, Bool.and_eq_true] at ho
    have h' := h.step op
    cases hoo : ofOp op with
    | none =>
      rw [hoo] at h'
      simpa [ofOps, List.filterMap_cons, hoo, stepO] using ih h' ht hj hsi ho.2
    | some o =>
      rw [hoo] at h'
      simp only [stepO] at h'
      have hso := ofOp_single op o hoo
      have := ih h' (ht.step o) (hj.step ht o hso) (hsi.step o hso) ho.2
      simp only [ofOps, List.filterMap_cons, hoo, Disc, All, Bool.and_eq_true]
      exact ⟨disc_of_ordered h hj hsi op ho.1 o hoo, this⟩

end Reg3
