import RactorModel.Model.TreeConc
import RactorModel.Lemmas.TreeProps

/-! Lemmas for `Model/TreeConc.lean`: the invariant of the concurrent exit machines, stability of
`Exiting`, the edge lemma. -/

namespace Tree

/-- the `Op` a tree action is (if it is one) -/
def TAct.toOp : TAct → Option Op
  | .spawn => some .spawn
  | .link c p => some (.link c p)
  | .unlink c p => some (.unlink c p)
  | .take y => some (.takeChildren y)
  | _ => none

theorem applyAct_toOp {t : State} {act : TAct} {o : Op} (h : act.toOp = some o) :
    applyAct t act = step true t o := by
  cases act <;> simp only [TAct.toOp, Option.some.injEq, reduceCtorEq] at h <;> subst h <;> rfl

theorem toNat_max_ge (a b : Status) : a.toNat ≤ (a.max b).toNat := by
  unfold Status.max; split <;> omega

theorem toNat_max_ge' (a b : Status) : b.toNat ≤ (a.max b).toNat := by
  unfold Status.max; split <;> omega

/-- an action other than the final publication -/
def TAct.benign : TAct → Prop
  | .stopped _ => False
  | .setSt _ st => st ≠ .stopped
  | _ => True

theorem Inv.applyAct {t : State} (h : Inv t) {act : TAct} (hb : act.benign) : Inv (applyAct t act) := by
  cases act with
  | nop => exact h
  | spawn => exact h.spawn
  | link c p => exact h.link c p
  | linkStart c p => exact h.linkStart c p
  | unlink c p => exact h.unlink c p
  | take y => exact h.takeChildren y
  | setSt a st => exact h.setStatus a st hb
  | kill y =>
    simp only [Tree.applyAct]; split
    · exact { bound := h.bound, links := h.links, nodup := h.nodup, stopped := h.stopped }
    · exact h
  | stopped a => exact absurd hb (by simp [TAct.benign])

theorem takeChildren_frame (t : State) (y : Nat) :
    (takeChildren t y).1.status = t.status ∧ (takeChildren t y).1.killed = t.killed ∧
    (takeChildren t y).1.n = t.n := by
  unfold Tree.takeChildren; split <;> exact ⟨rfl, rfl, rfl⟩

theorem kill_frame (t : State) (y : Nat) :
    (applyAct t (.kill y)).status = t.status ∧ (applyAct t (.kill y)).kids = t.kids ∧
    (applyAct t (.kill y)).sup = t.sup ∧ (applyAct t (.kill y)).n = t.n := by
  simp only [Tree.applyAct]; split <;> exact ⟨rfl, rfl, rfl, rfl⟩

theorem applyAct_mono {t : State} (h : Inv t) (act : TAct) :
    (∀ z, t.killed z = true → (applyAct t act).killed z = true) ∧
    (∀ z, z < t.n → (t.status z).toNat ≤ ((applyAct t act).status z).toNat) ∧
    t.n ≤ (applyAct t act).n := by
  cases act with
  | nop => exact ⟨fun _ hz => hz, fun _ _ => Nat.le_refl _, Nat.le_refl _⟩
  | spawn =>
    refine ⟨fun _ hz => hz, ?_, by simp only [Tree.applyAct, Tree.spawn]; omega⟩
    intro z hz; simp only [Tree.applyAct, Tree.spawn, upd_apply]; split
    · omega
    · exact Nat.le_refl _
  | link c p =>
    have hl := fun z => link_other h (c := c) (p := p) (z := z)
    simp only [Tree.applyAct]
    rw [(hl 0).2.2.2.1, (hl 0).2.2.2.2.1, (hl 0).2.2.2.2.2]
    exact ⟨fun _ hz => hz, fun _ _ => Nat.le_refl _, Nat.le_refl _⟩
  | linkStart c p =>
    have hl := fun z => linkB_other (lim := Status.stopping.toNat) h (c := c) (p := p) (z := z)
    simp only [Tree.applyAct, Tree.linkStart]
    rw [(hl 0).2.2.2.1, (hl 0).2.2.2.2.1, (hl 0).2.2.2.2.2]
    exact ⟨fun _ hz => hz, fun _ _ => Nat.le_refl _, Nat.le_refl _⟩
  | unlink c p =>
    simp only [Tree.applyAct]
    rw [(unlink_frame t c p).1, (unlink_frame t c p).2.1, (unlink_frame t c p).2.2]
    exact ⟨fun _ hz => hz, fun _ _ => Nat.le_refl _, Nat.le_refl _⟩
  | take y =>
    simp only [Tree.applyAct]
    rw [(takeChildren_frame t y).1, (takeChildren_frame t y).2.1, (takeChildren_frame t y).2.2]
    exact ⟨fun _ hz => hz, fun _ _ => Nat.le_refl _, Nat.le_refl _⟩
  | setSt a st =>
    refine ⟨fun _ hz => hz, ?_, Nat.le_refl _⟩
    intro z _; simp only [Tree.applyAct, Tree.setStatus, upd_apply]; split
    · next e => subst e; exact toNat_max_ge _ _
    · exact Nat.le_refl _
  | kill y =>
    rw [(kill_frame t y).1, (kill_frame t y).2.2.2]
    refine ⟨?_, fun _ _ => Nat.le_refl _, Nat.le_refl _⟩
    intro z hz; simp only [Tree.applyAct]; split
    · simp only [upd_apply]; split
      · rfl
      · exact hz
    · exact hz
  | stopped a =>
    refine ⟨fun _ hz => hz, ?_, Nat.le_refl _⟩
    intro z _; simp only [Tree.applyAct, Tree.setStatus, upd_apply]; split
    · next e => subst e; exact toNat_max_ge _ _
    · exact Nat.le_refl _

/-- frame facts of one action -/
theorem applyAct_facts {t : State} (h : Inv t) (act : TAct) :
    (∀ z, t.kids z = none → (applyAct t act).kids z = none) ∧
    (∀ z, Status.draining.toNat ≤ (t.status z).toNat →
        (∀ x, child (applyAct t act) z x → child t z x) ∧
        ((Status.stopping.toNat ≤ (t.status z).toNat ∨ ∀ p, act ≠ .linkStart z p) →
          ∀ q, (applyAct t act).sup z = some q → t.sup z = some q)) ∧
    (∀ z, t.killed z = true → (applyAct t act).killed z = true) ∧
    (∀ z, z < t.n → (t.status z).toNat ≤ ((applyAct t act).status z).toNat) ∧
    t.n ≤ (applyAct t act).n := by
  refine ⟨?_, ?_, applyAct_mono h act⟩
  · cases hop : act.toOp with
    | some o => rw [applyAct_toOp hop]; exact fun z hz => closed_step true h o z hz
    | none =>
      cases act <;> simp only [TAct.toOp, reduceCtorEq] at hop
      · exact fun _ hz => hz
      · exact fun z hz => (linkB_other h (z := z)).2.2.1 hz
      · exact fun _ hz => hz
      · rw [(kill_frame t _).2.1]; exact fun _ hz => hz
      · exact fun _ hz => hz
  · cases hop : act.toOp with
    | some o =>
      rw [applyAct_toOp hop]
      exact fun z hz => ⟨(no_gain_step true h o z hz).1, fun _ => (no_gain_step true h o z hz).2⟩
    | none =>
      cases act <;> simp only [TAct.toOp, reduceCtorEq] at hop
      · exact fun _ _ => ⟨fun _ hx => hx, fun _ _ hq => hq⟩
      · next c p =>
        intro z hz
        obtain ⟨a, b⟩ := linkB_no_gain (lim := Status.stopping.toNat) h c p z hz
        refine ⟨a, fun hc => b ?_⟩
        rcases hc with hc | hc
        · exact .inl hc
        · by_cases e : z = c
          · subst e; exact absurd rfl (hc p)
          · exact .inr e
      · exact fun _ _ => ⟨fun _ hx => hx, fun _ _ hq => hq⟩
      · intro z _
        refine ⟨?_, fun _ => ?_⟩
        · rintro x ⟨ks, hk, hx⟩; rw [(kill_frame t _).2.1] at hk; exact ⟨ks, hk, hx⟩
        · intro q hq; rw [(kill_frame t _).2.2.1] at hq; exact hq
      · exact fun _ _ => ⟨fun _ hx => hx, fun _ _ hq => hq⟩

/-- the status of an actor that does not exist yet is not touched, unless the action names it -/
def TAct.names (act : TAct) (z : Nat) : Prop :=
  match act with
  | .setSt a _ => a = z
  | .stopped a => a = z
  | _ => False

theorem applyAct_fresh {t : State} (h : Inv t) (act : TAct) (z : Nat) (hz : (applyAct t act).n ≤ z)
    (hn : ¬ act.names z) : (applyAct t act).status z = t.status z := by
  cases act with
  | nop => rfl
  | spawn =>
    simp only [Tree.applyAct, Tree.spawn, upd_apply] at hz ⊢
    split
    · omega
    · rfl
  | link c p => simp only [Tree.applyAct]; rw [(link_other h (c := c) (p := p) (z := 0)).2.2.2.1]
  | linkStart c p =>
    simp only [Tree.applyAct, Tree.linkStart]
    rw [(linkB_other (lim := Status.stopping.toNat) h (c := c) (p := p) (z := 0)).2.2.2.1]
  | unlink c p => simp only [Tree.applyAct]; rw [(unlink_frame _ _ _).2.1]
  | take y => simp only [Tree.applyAct]; rw [(takeChildren_frame t y).1]
  | setSt a st =>
    simp only [TAct.names] at hn
    simp only [Tree.applyAct, Tree.setStatus, upd_apply]; split
    · next e => exact absurd e.symm hn
    · rfl
  | kill y => rw [(kill_frame t y).1]
  | stopped a =>
    simp only [TAct.names] at hn
    simp only [Tree.applyAct, Tree.setStatus, upd_apply]; split
    · next e => exact absurd e.symm hn
    · rfl

/-! ### the invariant of the machines -/

/-- what `a`'s program counter promises about `a` -/
def MInv (t : State) (a : Nat) : CPc → Prop
  | .idle => True
  | .term false _ _ => True
  | .pub => True
  | .term true pend cur =>
    Status.stopping.toNat ≤ (t.status a).toNat ∧ (a ∈ pend ∨ cur = some a ∨ t.kids a = none)
  | .detach => Status.stopping.toNat ≤ (t.status a).toNat ∧ t.kids a = none
  | .unl o => Status.stopping.toNat ≤ (t.status a).toNat ∧ t.kids a = none ∧ (t.sup a = none ∨ t.sup a = o)
  | .publishStopped => Status.stopping.toNat ≤ (t.status a).toNat ∧ t.kids a = none ∧ t.sup a = none
  | .done => Status.stopped.toNat ≤ (t.status a).toNat ∧ t.kids a = none ∧ t.sup a = none

structure CInv (g : CState) : Prop where
  inv : Inv g.t
  fresh : ∀ x, g.t.n ≤ x → g.t.status x = .unstarted ∧ g.pc x = .idle
  mach : ∀ a, MInv g.t a (g.pc a)
  stopped : ∀ a, g.t.status a = .stopped → g.pc a = .done

theorem CInv.init : CInv cinit :=
  { inv := Inv.init
    fresh := fun _ _ => ⟨rfl, rfl⟩
    mach := fun _ => trivial
    stopped := fun a h => by simp [cinit] at h }

theorem CInv.lt {g : CState} (h : CInv g) {a : Nat} (hp : g.pc a ≠ .idle) : a < g.t.n := by
  by_cases e : a < g.t.n
  · exact e
  · exact absurd (h.fresh a (by omega)).2 hp

theorem CInv.lt_of_status {g : CState} (h : CInv g) {a : Nat} (hp : g.t.status a ≠ .unstarted) : a < g.t.n := by
  by_cases e : a < g.t.n
  · exact e
  · exact absurd (h.fresh a (by omega)).1 hp

/-- `MInv` of a program counter that does not move survives any action of anybody, as long as the actor
exists -/
theorem MInv.frame {t : State} (h : Inv t) (act : TAct) {a : Nat} (ha : a < t.n) {pc : CPc}
    (hm : MInv t a pc) : MInv (applyAct t act) a pc := by
  obtain ⟨hcl, hng, _, hst, _⟩ := applyAct_facts h act
  have hstop : Status.stopping.toNat ≤ (t.status a).toNat →
      Status.stopping.toNat ≤ ((applyAct t act).status a).toNat := fun h1 => Nat.le_trans h1 (hst a ha)
  have hsup : ∀ o, Status.stopping.toNat ≤ (t.status a).toNat → (t.sup a = none ∨ t.sup a = o) →
      ((applyAct t act).sup a = none ∨ (applyAct t act).sup a = o) := by
    intro o h1 h2
    have h3 := (hng a (by simp only [Status.toNat] at h1 ⊢; omega)).2 (.inl h1)
    cases hs : (applyAct t act).sup a with
    | none => exact .inl rfl
    | some q =>
      have := h3 q hs
      rcases h2 with h2 | h2
      · rw [h2] at this; cases this
      · right; rw [← h2, this]
  cases pc with
  | idle => trivial
  | pub => trivial
  | term cl pend cur =>
    cases cl with
    | false => trivial
    | true =>
      obtain ⟨h1, h2⟩ := hm
      refine ⟨hstop h1, ?_⟩
      rcases h2 with h2 | h2 | h2
      · exact .inl h2
      · exact .inr (.inl h2)
      · exact .inr (.inr (hcl a h2))
  | detach => exact ⟨hstop hm.1, hcl a hm.2⟩
  | unl o => exact ⟨hstop hm.1, hcl a hm.2.1, hsup o hm.1 hm.2.2⟩
  | publishStopped =>
    refine ⟨hstop hm.1, hcl a hm.2.1, ?_⟩
    rcases hsup none hm.1 (.inl hm.2.2) with e | e <;> exact e
  | done =>
    have h1 : Status.stopping.toNat ≤ (t.status a).toNat := by
      have := hm.1; simp only [Status.toNat] at this ⊢; omega
    refine ⟨Nat.le_trans hm.1 (hst a ha), hcl a hm.2.1, ?_⟩
    rcases hsup none h1 (.inl hm.2.2) with e | e <;> exact e

theorem status_stopped_of_toNat {st : Status} (h : Status.stopped.toNat ≤ st.toNat) : st = .stopped := by
  cases st <;> simp [Status.toNat] at h ⊢

theorem takeChildren_closes (t : State) (y : Nat) : (takeChildren t y).1.kids y = none := by
  unfold Tree.takeChildren
  cases hk : t.kids y with
  | none => simpa using hk
  | some ks => simp [upd_apply]

theorem unlink_self_sup {t : State} {a p : Nat} (h : t.sup a = none ∨ t.sup a = some p) :
    (unlink t a p).sup a = none := by
  unfold Tree.unlink
  split
  · simp [upd_apply]
  · next hne =>
    rcases h with h | h
    · exact h
    · exact absurd h hne

theorem xact_take (t : State) (a : Nat) (cl : Bool) (pend : List Nat) (y : Nat) :
    xact t a (.term cl pend (some y)) = (.take y, .term cl ((takeChildren t y).2 ++ pend) none) := by
  cases pend <;> cases cl <;> rfl

/-- the tree action of every step other than the last statement of `cleanup` is benign -/
theorem cact_benign (g : CState) (op : COp) :
    (cact g op).benign ∨ ∃ a, op = .xstep a ∧ g.pc a = .publishStopped ∧ cact g op = .stopped a := by
  cases op with
  | spawn => exact .inl trivial
  | link c p => exact .inl trivial
  | linkStart c p => exact .inl trivial
  | unlink c p => exact .inl trivial
  | setStatus a st =>
    simp only [cact]; split
    · next h => exact .inl h.2
    · exact .inl trivial
  | begin a k => exact .inl trivial
  | shuffle a p => exact .inl trivial
  | xstep a =>
    simp only [cact]
    cases hpc : g.pc a with
    | idle => exact .inl trivial
    | pub => left; simp [xact, TAct.benign]
    | detach => exact .inl trivial
    | unl o => cases o <;> exact .inl trivial
    | publishStopped => exact .inr ⟨a, rfl, hpc, by simp [cact, hpc, xact]⟩
    | done => exact .inl trivial
    | term cl pend cur =>
      cases cur with
      | some y => rw [xact_take]; exact .inl trivial
      | none =>
        cases pend with
        | cons y rest => exact .inl trivial
        | nil => cases cl <;> exact .inl trivial

theorem sameMembers_mem {p q : List Nat} (h : sameMembers p q = true) (x : Nat) : x ∈ p ↔ x ∈ q := by
  simp only [sameMembers, Bool.and_eq_true, List.all_eq_true, List.contains_iff_mem] at h
  exact ⟨fun hx => h.1 x hx, fun hx => h.2 x hx⟩

theorem cpc_other (g : CState) (op : COp) (x : Nat) :
    cpc g op x = g.pc x ∨ (∃ k, op = .begin x k ∧ g.pc x = .idle ∧ x < g.t.n) ∨ op = .xstep x ∨
    (∃ cl pend pend' cur, op = .shuffle x pend' ∧ g.pc x = .term cl pend cur ∧ sameMembers pend pend' = true ∧
      cpc g op x = .term cl pend' cur) := by
  cases op with
  | begin a k =>
    simp only [cpc]; split
    · next h =>
      simp only [upd_apply]; split
      · next e => subst e; exact .inr (.inl ⟨k, rfl, h.2, h.1⟩)
      · exact .inl rfl
    · exact .inl rfl
  | xstep a =>
    simp only [cpc, upd_apply]; split
    · next e => subst e; exact .inr (.inr (.inl rfl))
    · exact .inl rfl
  | shuffle a p =>
    simp only [cpc]
    cases hpc : g.pc a with
    | term cl pend cur =>
      simp only
      split
      · next hs =>
        simp only [upd_apply]; split
        · next e => subst e; exact .inr (.inr (.inr ⟨cl, pend, p, cur, rfl, hpc, hs, rfl⟩))
        · exact .inl rfl
      · exact .inl rfl
    | idle => exact .inl rfl
    | pub => exact .inl rfl
    | detach => exact .inl rfl
    | unl o => exact .inl rfl
    | publishStopped => exact .inl rfl
    | done => exact .inl rfl
  | spawn => exact .inl rfl
  | link c p => exact .inl rfl
  | linkStart c p => exact .inl rfl
  | unlink c p => exact .inl rfl
  | setStatus a st => exact .inl rfl

theorem cact_names {g : CState} (h : CInv g) (op : COp) (z : Nat) (hz : g.t.n ≤ z) : ¬ (cact g op).names z := by
  cases op with
  | spawn => exact id
  | link c p => exact id
  | linkStart c p => exact id
  | unlink c p => exact id
  | begin a k => exact id
  | shuffle a p => exact id
  | setStatus a st =>
    simp only [cact]; split
    · next h1 => simp only [TAct.names]; omega
    · exact id
  | xstep a =>
    simp only [cact]
    by_cases ha : g.pc a = .idle
    · rw [ha]; exact id
    · have := h.lt ha
      cases hpc : g.pc a with
      | idle => exact id
      | pub => simp only [xact, TAct.names]; omega
      | detach => exact id
      | unl o => cases o <;> exact id
      | publishStopped => simp only [xact, TAct.names]; omega
      | done => exact id
      | term cl pend cur =>
        cases cur with
        | some y => rw [xact_take]; exact id
        | none =>
          cases pend with
          | cons y rest => exact id
          | nil => cases cl <;> exact id

theorem applyAct_n_le {t : State} (h : Inv t) (act : TAct) : t.n ≤ (applyAct t act).n :=
  (applyAct_facts h act).2.2.2.2

/-- the machine invariant of the actor that takes the step -/
theorem MInv.own {g : CState} (h : CInv g) (a : Nat) (ha : a < g.t.n) :
    MInv (applyAct g.t (xact g.t a (g.pc a)).1) a (xact g.t a (g.pc a)).2 := by
  have hm := h.mach a
  cases hpc : g.pc a with
  | idle => trivial
  | pub =>
    simp only [xact, MInv, Tree.applyAct, Tree.setStatus, upd_apply, ↓reduceIte]
    exact ⟨toNat_max_ge' _ _, .inl (List.mem_singleton.mpr rfl)⟩
  | detach =>
    rw [hpc] at hm
    exact ⟨hm.1, hm.2, .inr rfl⟩
  | unl o =>
    rw [hpc] at hm
    cases o with
    | none =>
      refine ⟨hm.1, hm.2.1, ?_⟩
      rcases hm.2.2 with e | e <;> exact e
    | some p =>
      simp only [xact, MInv, Tree.applyAct]
      refine ⟨by rw [(unlink_frame _ _ _).2.1]; exact hm.1, unlink_closed _ _ hm.2.1, unlink_self_sup hm.2.2⟩
  | publishStopped =>
    rw [hpc] at hm
    simp only [xact, MInv, Tree.applyAct, Tree.setStatus, upd_apply, ↓reduceIte]
    exact ⟨toNat_max_ge' _ _, hm.2.1, hm.2.2⟩
  | done => rw [hpc] at hm; exact hm
  | term cl pend cur =>
    rw [hpc] at hm
    cases cur with
    | some y =>
      rw [xact_take]
      cases cl with
      | false => trivial
      | true =>
        simp only [MInv, Tree.applyAct]
        have hst : (takeChildren g.t y).1.status = g.t.status := (takeChildren_frame _ _).1
        refine ⟨by rw [hst]; exact hm.1, ?_⟩
        rcases hm.2 with e | e | e
        · exact .inl (List.mem_append_right _ e)
        · cases e; exact .inr (.inr (takeChildren_closes _ _))
        · right; right
          exact closed_step true h.inv (.takeChildren y) a e
    | none =>
      cases pend with
      | cons y rest =>
        cases cl with
        | false => trivial
        | true =>
          simp only [xact, MInv]
          have e1 : (applyAct g.t (.kill y)).status = g.t.status := by
            simp only [Tree.applyAct]; split <;> rfl
          have e2 : (applyAct g.t (.kill y)).kids = g.t.kids := by
            simp only [Tree.applyAct]; split <;> rfl
          rw [e1, e2]
          refine ⟨hm.1, ?_⟩
          rcases hm.2 with e | e | e
          · rcases List.mem_cons.mp e with e | e
            · subst e; exact .inr (.inl rfl)
            · exact .inl e
          · cases e
          · exact .inr (.inr e)
      | nil =>
        cases cl with
        | false => trivial
        | true =>
          refine ⟨hm.1, ?_⟩
          rcases hm.2 with e | e | e
          · cases e
          · cases e
          · exact e

theorem CInv.step {g : CState} (h : CInv g) (op : COp) : CInv (cstep g op) := by
  have hn := applyAct_n_le h.inv (cact g op)
  -- the tree invariant
  have hinv : Inv (cstep g op).t := by
    rcases cact_benign g op with hb | ⟨a, rfl, hpc, hact⟩
    · exact h.inv.applyAct hb
    · have hm := h.mach a
      rw [hpc] at hm
      show Inv (applyAct g.t (cact g (.xstep a)))
      rw [hact]
      exact { bound := h.inv.bound, links := h.inv.links, nodup := h.inv.nodup
              stopped := by
                intro x hx
                by_cases e : x = a
                · subst e; exact ⟨hm.2.2, .inl hm.2.1⟩
                · simp only [Tree.applyAct, Tree.setStatus, upd_ne _ _ e] at hx
                  exact h.inv.stopped x hx }
  refine ⟨hinv, ?_, ?_, ?_⟩
  · -- fresh
    intro x hx
    have hx0 : g.t.n ≤ x := Nat.le_trans hn hx
    obtain ⟨f1, f2⟩ := h.fresh x hx0
    refine ⟨?_, ?_⟩
    · show (applyAct g.t (cact g op)).status x = _
      rw [applyAct_fresh h.inv _ x hx (cact_names h op x hx0)]; exact f1
    · show cpc g op x = _
      rcases cpc_other g op x with e | ⟨k, _, _, hlt⟩ | e | ⟨cl, pend, pend', cur, _, hpc, _, _⟩
      · rw [e]; exact f2
      · omega
      · subst e; simp only [cpc, upd_apply, ↓reduceIte, f2, xact]
      · rw [f2] at hpc; cases hpc
  · -- machines
    intro a
    show MInv (applyAct g.t (cact g op)) a (cpc g op a)
    rcases cpc_other g op a with e | ⟨k, e, hidle, hlt⟩ | e | ⟨cl, pend, pend', cur, e, hpc, hs, hnew⟩
    rotate_right
    · -- a rearranged worklist has the same members
      subst e
      rw [hnew]
      have hm := h.mach a
      rw [hpc] at hm
      show MInv g.t a (.term cl pend' cur)
      cases cl with
      | false => trivial
      | true =>
        refine ⟨hm.1, ?_⟩
        rcases hm.2 with e | e | e
        · exact .inl ((sameMembers_mem hs a).mp e)
        · exact .inr (.inl e)
        · exact .inr (.inr e)
    · rw [e]
      by_cases ha : a < g.t.n
      · -- the action may be the final publication of somebody else: handle via frame on benign or directly
        rcases cact_benign g op with _ | ⟨b, rfl, hpcb, hact⟩
        · exact MInv.frame h.inv _ ha (h.mach a)
        · exact MInv.frame h.inv _ ha (h.mach a)
      · rw [(h.fresh a (by omega)).2]; trivial
    · subst e
      simp only [cpc, hidle, hlt, and_self, ↓reduceIte, upd_apply]
      cases k <;> trivial
    · subst e
      by_cases ha : a < g.t.n
      · simp only [cpc, upd_apply, ↓reduceIte, cact]
        exact MInv.own h a ha
      · have := (h.fresh a (by omega)).2
        simp only [cpc, upd_apply, ↓reduceIte, this, xact]; trivial
  · -- only the last statement of cleanup publishes Stopped
    intro a ha
    change (applyAct g.t (cact g op)).status a = .stopped at ha
    show cpc g op a = .done
    by_cases hold : g.t.status a = .stopped
    · have hd := h.stopped a hold
      rcases cpc_other g op a with e | ⟨k, _, hidle, _⟩ | e | ⟨cl, pend, pend', cur, _, hpc, _, _⟩
      · rw [e]; exact hd
      · rw [hd] at hidle; cases hidle
      · subst e; simp only [cpc, upd_apply, ↓reduceIte, hd, xact]
      · rw [hd] at hpc; cases hpc
    · -- the status of `a` became Stopped in this step
      rcases cact_benign g op with hb | ⟨b, rfl, hpcb, hact⟩
      · exfalso
        cases hc : cact g op with
        | setSt b st =>
          rw [hc] at ha hb
          simp only [Tree.applyAct, Tree.setStatus, upd_apply] at ha
          split at ha
          · next e =>
            subst e
            unfold Status.max at ha
            split at ha
            · exact hb ha
            · exact hold ha
          · exact hold ha
        | stopped b => rw [hc] at hb; exact hb
        | nop => rw [hc] at ha; exact hold ha
        | spawn =>
          rw [hc] at ha
          simp only [Tree.applyAct, Tree.spawn, upd_apply] at ha
          split at ha
          · cases ha
          · exact hold ha
        | link c p => rw [hc] at ha; simp only [Tree.applyAct] at ha; rw [(link_other h.inv (c := c) (p := p) (z := 0)).2.2.2.1] at ha; exact hold ha
        | linkStart c p =>
          rw [hc] at ha; simp only [Tree.applyAct, Tree.linkStart] at ha
          rw [(linkB_other h.inv (c := c) (p := p) (z := 0)).2.2.2.1] at ha; exact hold ha
        | unlink c p => rw [hc] at ha; simp only [Tree.applyAct] at ha; rw [(unlink_frame _ _ _).2.1] at ha; exact hold ha
        | take y =>
          rw [hc] at ha
          have : (takeChildren g.t y).1.status = g.t.status := by unfold Tree.takeChildren; split <;> rfl
          simp only [Tree.applyAct] at ha; rw [this] at ha; exact hold ha
        | kill y =>
          rw [hc] at ha
          have : (applyAct g.t (.kill y)).status = g.t.status := by simp only [Tree.applyAct]; split <;> rfl
          rw [this] at ha; exact hold ha
      · rw [hact] at ha
        simp only [Tree.applyAct, Tree.setStatus, upd_apply] at ha
        split at ha
        · next e => subst e; simp only [cpc, upd_apply, ↓reduceIte, hpcb, xact]
        · exact absurd ha hold

theorem CInv.run {g : CState} (h : CInv g) (ops : List COp) : CInv (crun g ops) := by
  induction ops generalizing g with
  | nil => exact h
  | cons op ops ih => exact ih (h.step op)

end Tree
